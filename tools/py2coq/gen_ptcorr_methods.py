"""Gen/GenPtCorrMethods.v from src/sparkx/MultiParticlePtCorrelations.py: the WHOLE bodies of

    MultiParticlePtCorrelations.__init__, _P_W_k, _transverse_momentum_correlations_event_num_denom,
    _compute_numerator_denominator_all_events, _compute_mean_pT_correlations, mean_pT_correlations,
    _kappa_cumulant, _compute_mean_pT_cumulants, mean_pT_cumulants

as Gallina functions over coq/Model/PtCorrRt.v (statement by statement, in source order), plus the names and the
defaults of the arguments of the two public methods.  Proofs/PtCorr_Source.v proves them equal to the hand model
Model/PtCorr.v.

Fail-closed: a typed translator of the small Python/numpy fragment these methods are written in.  Every statement
and expression node inside the methods must be of an accepted shape AND be well typed in the fragment's type system;
anything else (also a method of the class that is not listed in METHODS) raises TranslateError with the source position.

Conventions
-----------
* carrier: the generated Section is over the abstract K / k0 k1 kadd kmul ksub kopp kdiv kis0 of Model/PtCorr.v; a float is
  `F K = option K` (None: NaN/inf), a scalar additionally knows whether it is a Python float (literals) or a numpy
  float64 (array elements, particle accessors): this decides `/` (ZeroDivisionError vs. inf/NaN).
* types (Coq type): INT (Z)  BOOL (bool)  SCAL (scalar K)  ARR1 (list (F K))  ARR2 (nd K)  STORE (store K: the
  attributes N_events / D_events, which are None, a list of rows or an ndarray over time)  ATTR (attr K: the result
  attributes)  OBJ (obj K: self)  P / EV / EVS (particle, event, list of events)  PYVAL (an argument of a public
  method before its isinstance guard)  FQ (a float argument after the guard)  JK (a Jackknife object)
* a method becomes `gen_<name> self args : result (outs)` where outs is the tuple of: the returned value (if any),
  the new self (if the method or a method it calls assigns an attribute of self), the new value of every argument
  whose particles it changes (`particle.weight = ...`), in this order; __init__ starts from `obj_blank` and may read an
  attribute only after it assigned it.
* statements: docstring; `raise Cls(msg)`; `return e` (not inside a loop); `x = e`; `a, b = self.m(..)`;
  `self.attr = e` / `self.attr: T = e` (record update; the attribute must be one of FIELDS); `particle.weight = e`;
  `A[i] = e`, `A[i] += e` (A a local 1-D array that is neither an argument, a view, nor already stored in self);
  `A[:, a::b] = B`; `x += e`; `self.m(..)`; `self.<store>.append(A)`; `if`/`elif`/`else` (join over the names bound before
  and assigned inside); the guard `if not isinstance(x, float|int|bool): raise Cls(..)` on a PYVAL (refines x);
  `for x in range(n)` / `for x in <event list>` as a fold over the loop-carried names (= bound before the loop and
  assigned in it, in the order of their first assignment in the body); a loop over particles/events whose body changes
  the loop variable is `for_mut` and rebinds the list.
* the two if-chains that select a polynomial (`for order in range(..): if order == c: N[order] = <poly>; D[order] =
  <poly> ...` and the body of `_kappa_cumulant`) are translated as the chains they are (order of the branches, the
  constants, the assigned array and index, the exception of the final else), but the polynomial on the right-hand side
  is NOT re-translated: it is `gen_N c` / `gen_D c` / `gen_kappa c` of Gen/GenPtCorr.v (gen_ptcorr.py translates exactly
  these right-hand sides, keyed by the same branch constant), evaluated at F K.  Each such read is guarded by the
  IndexError of the largest index the right-hand side reads.  These shapes are checked with the same `poly` helpers.
* aliasing: arrays are values in the model, so every way of reaching one array under two names is rejected: `a = b` on
  arrays / particle lists, element assignment to an argument, to a view (`X[:, j]`, `X[:, :n]`, `.T`) or to an array after
  it was appended to / stored in self, storing in self inside a loop.  A method may not assign elements of its array
  arguments.  The only objects changed in place are the particles (threaded back to the caller, see above).
* external library: `Jackknife(a, b, c)` is the Section variable `jk_new` applied to the ORIGINAL argument values,
  `jk.compute_jackknife_estimates(arr, function=self.m, kw=e)` the Section variable `jk_estimate jk arr (fun a => gen_m self a e)`;
  `np.empty` is filled with the Section variable `junk`.
* pinned textually (compared after ast normalisation): the two import lines `import numpy as np` and
  `from sparkx.Jackknife import Jackknife`; `dtype=<2-D array>.dtype` of np.empty (accepted and dropped: every array is
  float64).  Nothing else.
"""
import ast
from fractions import Fraction
from .core import *
from . import poly

SRC = "src/sparkx/MultiParticlePtCorrelations.py"
OUTPUTS = ["GenPtCorrMethods"]
CLASS = "MultiParticlePtCorrelations"

INT, BOOL, SCAL, ARR1, ARR2, STORE, ATTR, OBJ, P, EV, EVS, PYVAL, FQ, JK, NONE, RET2, FLIT, NONEC, EMPTYL = (
    "INT", "BOOL", "SCAL", "ARR1", "ARR2", "STORE", "ATTR", "OBJ", "P", "EV", "EVS", "PYVAL", "FQ", "JK", "NONE", "RET2",
    "FLIT", "NONEC", "EMPTYL")
COQ_TY = {INT: "Z", BOOL: "bool", SCAL: "scalar K", ARR1: "list (F K)", ARR2: "nd K", STORE: "store K", ATTR: "attr K",
          OBJ: "obj K", P: "particle K", EV: "list (particle K)", EVS: "list (list (particle K))", PYVAL: "pyval",
          FQ: "fq", JK: "JK", NONE: "unit", RET2: "ret2 K"}
METHODS = [
    ("__init__", [INT]),
    ("_P_W_k", [EV]),
    ("_transverse_momentum_correlations_event_num_denom", [EV]),
    ("_compute_numerator_denominator_all_events", [EVS]),
    ("_compute_mean_pT_correlations", [ARR2]),
    ("mean_pT_correlations", [EVS, PYVAL, PYVAL, PYVAL, PYVAL]),
    ("_kappa_cumulant", [ARR1, INT]),
    ("_compute_mean_pT_cumulants", [ARR2, INT]),
    ("mean_pT_cumulants", [EVS, PYVAL, PYVAL, PYVAL, PYVAL]),
]
PUBLIC = ["mean_pT_correlations", "mean_pT_cumulants"]
FIELDS = {"max_order": INT, "mean_pt_correlation": ATTR, "mean_pt_correlation_error": ATTR, "kappa": ATTR,
          "kappa_error": ATTR, "N_events": STORE, "D_events": STORE, "mean_pT_correlation": ATTR,
          "mean_pT_correlation_error": ATTR}
EXN = {"TypeError", "ValueError", "IndexError", "KeyError", "AttributeError", "ZeroDivisionError"}
MUTABLE = (P, EV, EVS)
ELEM = {EVS: EV, EV: P}
IMPORTS = ["import numpy as np", "from sparkx.Jackknife import Jackknife"]
POLY_TARGETS = {"N": "r_N", "D": "r_D"}
POLY_ARRAYS = {"Pk": "P", "Wk": "W"}


def ty_str(t):
    if isinstance(t, tuple):
        return "(" + " * ".join(ty_str(x) for x in t[1]) + ")"
    return COQ_TY[t]


def z_lit(v):
    return f"{v}%Z" if v >= 0 else f"({v})%Z"


def vname(py):
    if not py.replace("_", "a").isalnum():
        raise TranslateError("identifier not accepted: " + py)
    return "v_" + py


def tup(ts):
    return "tt" if not ts else ts[0] if len(ts) == 1 else "(" + ", ".join(ts) + ")"


def pat(ts):
    """pattern body (used after a quote) for a left-nested tuple of patterns"""
    return "_" if not ts else ts[0] if len(ts) == 1 else "(" + ", ".join(ts) + ")"


def lam(ts):
    """binder of a function that takes the tuple of ts"""
    if len(ts) == 1 and ts[0].startswith("("):
        return "'" + ts[0]
    return "_" if not ts else ts[0] if len(ts) == 1 else "'(" + ", ".join(ts) + ")"


class X:
    """a translated expression: Coq term, fragment type, monadic (term : result T) or pure (term : T),
    value of a numeric literal, the variable it names"""

    def __init__(self, term, ty, mon=False, lit=None, var=None, view=False):
        self.term, self.ty, self.mon, self.lit, self.var, self.view = term, ty, mon, lit, var, view


class Var:
    def __init__(self, name, ty, orig=None, view=False, param=False, escaped=False):
        self.name, self.ty, self.orig, self.view, self.param, self.escaped = name, ty, orig, view, param, escaped

    def but(self, **kw):
        v = Var(self.name, self.ty, self.orig, self.view, self.param, self.escaped)
        for k, x in kw.items():
            setattr(v, k, x)
        return v


class Summary:
    def __init__(self, name, params, ptys):
        self.name, self.params, self.ptys = name, params, ptys
        self.ret, self.mut_self, self.mut_params = None, False, []

    def outs(self):
        n = (0 if self.ret == NONE else 1) + (1 if self.mut_self else 0) + len(self.mut_params)
        return n

    def out_type(self):
        ts = ([] if self.ret == NONE else [ty_str(self.ret)]) + (["obj K"] if self.mut_self else []) \
            + [COQ_TY[self.ptys[i]] for i in self.mut_params]
        return "unit" if not ts else "(" + " * ".join(ts) + ")"


def _is_msg(node):
    if isinstance(node, ast.Constant) and isinstance(node.value, str):
        return True
    if isinstance(node, ast.JoinedStr):
        return True
    if isinstance(node, ast.BinOp) and isinstance(node.op, ast.Add):
        return _is_msg(node.left) and _is_msg(node.right)
    return False


def terminates(stmts):
    if not stmts:
        return False
    last = stmts[-1]
    if isinstance(last, (ast.Return, ast.Raise)):
        return True
    if isinstance(last, ast.If):
        return terminates(last.body) and terminates(last.orelse)
    return False


def self_call(node):
    """`self.m(...)` -> m"""
    if isinstance(node, ast.Call) and isinstance(node.func, ast.Attribute) and isinstance(node.func.value, ast.Name) \
            and node.func.value.id == "self":
        return node.func.attr
    return None


class Translator:
    def __init__(self, path):
        self.path = path
        self.sums = {}
        self.n = 0

    def err(self, msg, node):
        raise TranslateError(msg, node, self.path)

    def fresh(self, base="t"):
        self.n += 1
        return f"{base}{self.n}_"

    # ------------------------------------------------------------------ effects of statements
    def call_effects(self, call):
        """names rebound by a call statement/value: self, the arguments whose particles the callee changes"""
        out = []
        m = self_call(call)
        if m is not None:
            if m not in self.sums:
                self.err("method call not accepted (not translated before its caller): self." + m, call)
            sm = self.sums[m]
            if sm.mut_self:
                out.append("self")
            for i in sm.mut_params:
                if i < len(call.args) and isinstance(call.args[i], ast.Name):
                    out.append(call.args[i].id)
        elif (isinstance(call, ast.Call) and isinstance(call.func, ast.Attribute) and call.func.attr == "append"
              and isinstance(call.func.value, ast.Attribute) and isinstance(call.func.value.value, ast.Name)
              and call.func.value.value.id == "self"):
            out.append("self")
        return out

    def assigned(self, stmts):
        """names (re)bound by the statements in the order of their first assignment, nested blocks included; an
        element/attribute assignment rebinds its base name"""
        out = []

        def add(n):
            if n not in out:
                out.append(n)

        def target(t):
            if isinstance(t, ast.Name):
                add(t.id)
            elif isinstance(t, ast.Tuple):
                for e in t.elts:
                    target(e)
            elif isinstance(t, (ast.Subscript, ast.Attribute)) and isinstance(t.value, ast.Name):
                add(t.value.id)
            else:
                self.err("assignment target not accepted", t)
        for st in stmts:
            if isinstance(st, ast.Assign):
                if isinstance(st.value, ast.Call):
                    for n in self.call_effects(st.value):
                        add(n)
                for t in st.targets:
                    target(t)
            elif isinstance(st, ast.AnnAssign):
                target(st.target)
            elif isinstance(st, ast.AugAssign):
                target(st.target)
            elif isinstance(st, ast.If):
                for n in self.assigned(st.body) + self.assigned(st.orelse):
                    add(n)
            elif isinstance(st, ast.For):
                target(st.target)
                inner = self.assigned(st.body)
                for n in inner:
                    add(n)
                # changing the loop variable changes the elements of the list the loop runs over
                if isinstance(st.target, ast.Name) and st.target.id in inner and isinstance(st.iter, ast.Name):
                    add(st.iter.id)
            elif isinstance(st, ast.Expr) and isinstance(st.value, ast.Call):
                for n in self.call_effects(st.value):
                    add(n)
        return out

    @staticmethod
    def read_later(name, stmts):
        """may the current binding of `name` be read by these statements (conservative)?"""
        def loaded(node):
            return any(isinstance(n, ast.Name) and n.id == name and isinstance(n.ctx, ast.Load) for n in ast.walk(node))
        for st in stmts:
            if isinstance(st, ast.Assign):
                if loaded(st.value):
                    return True
                if len(st.targets) == 1 and isinstance(st.targets[0], ast.Name) and st.targets[0].id == name:
                    return False
                if any(loaded(t) for t in st.targets):
                    return True
            elif isinstance(st, ast.For):
                if loaded(st.iter):
                    return True
                if isinstance(st.target, ast.Name) and st.target.id == name:
                    continue
                if Translator.read_later(name, st.body):
                    return True
            elif isinstance(st, ast.If):
                if loaded(st.test) or Translator.read_later(name, st.body) or Translator.read_later(name, st.orelse):
                    return True
            elif loaded(st):
                return True
        return False

    # ------------------------------------------------------------------ plumbing
    def lift(self, parts, f):
        """parts: [X]; f(pure terms) -> X.  Monadic parts are bound left to right (Python's evaluation order)."""
        names, binds = [], []
        for p in parts:
            if p.mon:
                v = self.fresh()
                binds.append((v, p.term))
                names.append(v)
            else:
                names.append(p.term)
        r = f(names)
        if not binds:
            return r
        inner = r.term if r.mon else f"Ok {r.term}"
        for v, term in reversed(binds):
            inner = f"(bind {term} (fun {v} => {inner}))"
        return X(inner, r.ty, True, view=r.view)

    @staticmethod
    def m(x):
        return x.term if x.mon else f"(Ok {x.term})"

    def coerce(self, x, want, node):
        if x.ty == want:
            return x
        if x.ty == FLIT and want == SCAL:
            if x.lit.denominator != 1:
                self.err("non-integral float literal in arithmetic", node)
            return X(f"(PyF (r_lit {z_lit(x.lit.numerator)}))", SCAL)
        if x.ty == FLIT and want == FQ:
            n, d = x.lit.numerator, x.lit.denominator
            return X(f"(FQ ({n} # {d})%Q)" if n >= 0 else f"(FQ (({n}) # {d})%Q)", FQ)
        if x.ty == NONEC and want == ATTR:
            return X("ANone", ATTR)
        if x.ty == NONEC and want == STORE:
            return X("SNone", STORE)
        if x.ty == EMPTYL and want == STORE:
            return X("(SList [])", STORE)
        if x.ty == ARR1 and want == ATTR:
            return self.lift([x], lambda t: X(f"(AArr {t[0]})", ATTR))
        self.err(f"a value of type {x.ty} where {want} is needed", node)

    # ------------------------------------------------------------------ expressions
    def E(self, node, env):
        if isinstance(node, ast.Constant):
            v = node.value
            if v is None:
                return X("", NONEC)
            if isinstance(v, bool):
                self.err("constant not accepted here: " + repr(v), node)
            if isinstance(v, int):
                return X(z_lit(v), INT, lit=Fraction(v))
            if isinstance(v, float):
                if v != v or v in (float("inf"), float("-inf")):
                    self.err("non-finite float literal", node)
                return X("", FLIT, lit=Fraction(v))
            self.err("constant not accepted: " + repr(v), node)
        if isinstance(node, ast.List) and not node.elts:
            return X("", EMPTYL)
        if isinstance(node, ast.Name):
            if node.id not in env:
                self.err(f"name {node.id} is not bound here", node)
            v = env[node.id]
            return X(v.name, v.ty, var=node.id, view=v.view)
        if isinstance(node, ast.Tuple):
            parts = [self.E(e, env) for e in node.elts]
            for p, e in zip(parts, node.elts):
                if p.ty != ARR1:
                    self.err("a tuple of 1-D arrays only", e)
            return self.lift(parts, lambda t: X("(" + ", ".join(t) + ")", ("TUP", tuple(p.ty for p in parts))))
        if isinstance(node, ast.Attribute):
            if isinstance(node.value, ast.Name) and node.value.id == "self":
                if node.attr not in FIELDS:
                    self.err("attribute of self not accepted: " + node.attr, node)
                if self.in_init and node.attr not in self.init_assigned:
                    self.err(f"__init__ reads self.{node.attr} before assigning it", node)
                return X(f"(o_{node.attr} {env['self'].name})", FIELDS[node.attr])
            b = self.E(node.value, env)
            if b.ty == P and node.attr == "weight":
                return self.lift([b], lambda t: X(f"(p_weight {t[0]})", SCAL))
            if b.ty == ARR2 and node.attr == "T":
                return self.lift([b], lambda t: X(f"(nd_T {t[0]})", ARR2, view=True))
            self.err("attribute access not accepted: " + ast.unparse(node), node)
        if isinstance(node, ast.UnaryOp) and isinstance(node.op, ast.USub):
            a = self.E(node.operand, env)
            if a.ty == INT and a.lit is not None:
                return X(z_lit(-int(a.lit)), INT, lit=-a.lit)
            if a.ty == INT:
                return self.lift([a], lambda t: X(f"(- {t[0]})%Z", INT))
            if a.ty == FLIT:
                return X("", FLIT, lit=-a.lit)
            if a.ty == SCAL:
                return self.lift([a], lambda t: X(f"(r_sneg {t[0]})", SCAL))
            self.err(f"unary minus on {a.ty}", node)
        if isinstance(node, ast.BinOp):
            return self.binop(node, self.E(node.left, env), node.op, self.E(node.right, env))
        if isinstance(node, ast.Subscript):
            return self.subscript(node, env)
        if isinstance(node, ast.Call):
            return self.call(node, env)
        self.err("expression not accepted: " + type(node).__name__ + " " + ast.unparse(node)[:60], node)

    def binop(self, node, a, op, b):
        if a.ty == INT and b.ty == INT:
            sym = {ast.Add: "+", ast.Sub: "-", ast.Mult: "*"}.get(type(op))
            if sym is None:
                self.err("operator not accepted on ints: " + type(op).__name__, node)
            return self.lift([a, b], lambda t: X(f"({t[0]} {sym} {t[1]})%Z", INT))
        if isinstance(op, ast.Pow):
            a = self.coerce(a, SCAL, node)
            if b.ty != INT:
                self.err(f"exponent of type {b.ty} (an int is needed)", node)
            return self.lift([a, b], lambda t: X(f"(r_spow {t[0]} {t[1]})", SCAL, True))
        names = {ast.Add: "r_sadd", ast.Sub: "r_ssub", ast.Mult: "r_smul", ast.Div: "r_sdiv"}
        if type(op) not in names:
            self.err("operator not accepted: " + type(op).__name__, node)
        if SCAL not in (a.ty, b.ty):
            self.err(f"arithmetic on {a.ty} and {b.ty}", node)
        a, b = self.coerce(a, SCAL, node), self.coerce(b, SCAL, node)
        return self.lift([a, b], lambda t: X(f"({names[type(op)]} {t[0]} {t[1]})", SCAL, isinstance(op, ast.Div)))

    @staticmethod
    def full_slice(s):
        return isinstance(s, ast.Slice) and s.lower is None and s.upper is None and s.step is None

    def subscript(self, node, env):
        s = node.slice
        # <2-D array>.shape[0|1]
        if isinstance(node.value, ast.Attribute) and node.value.attr == "shape":
            b = self.E(node.value.value, env)
            if b.ty != ARR2 or not (isinstance(s, ast.Constant) and s.value in (0, 1) and not isinstance(s.value, bool)):
                self.err("shape accepted only as <2-D array>.shape[0] / .shape[1]", node)
            if s.value == 0:
                return self.lift([b], lambda t: X(f"(nd_shape0 {t[0]})", INT))
            return self.lift([b], lambda t: X(f"(nd_shape1 {t[0]})", INT, True))
        b = self.E(node.value, env)
        if isinstance(s, ast.Tuple) and len(s.elts) == 2:
            r, c = s.elts
            if self.full_slice(r) and b.ty == STORE:
                if isinstance(c, ast.Slice):
                    if c.lower is not None or c.step is not None or c.upper is None:
                        self.err("column slice accepted only as [:, :n]", node)
                    n = self.E(c.upper, env)
                    if n.ty != INT:
                        self.err("slice bound is not an int", node)
                    return self.lift([b, n], lambda t: X(f"(store_cols_to {t[0]} {t[1]})", ARR2, True, view=True))
                j = self.E(c, env)
                if j.ty != INT:
                    self.err("column index is not an int", node)
                return self.lift([b, j], lambda t: X(f"(store_col {t[0]} {t[1]})", ARR1, True, view=True))
            if b.ty == ARR2 and not isinstance(r, ast.Slice) and not isinstance(c, ast.Slice):
                i, j = self.E(r, env), self.E(c, env)
                if i.ty != INT or j.ty != INT:
                    self.err("index is not an int", node)
                return self.lift([b, i, j], lambda t: X(f"(nd_get {t[0]} {t[1]} {t[2]})", SCAL, True))
            self.err(f"two-index subscript of {b.ty} not accepted", node)
        if isinstance(s, (ast.Slice, ast.Tuple)):
            self.err("slice not accepted", node)
        i = self.E(s, env)
        if b.ty == ARR1 and i.ty == INT:
            return self.lift([b, i], lambda t: X(f"(arr_get {t[0]} {t[1]})", SCAL, True))
        self.err(f"subscript of {b.ty} by {i.ty}", node)

    def method_args(self, node, sm, env):
        if node.keywords or len(node.args) != len(sm.params):
            self.err(f"call of self.{sm.name}: all {len(sm.params)} arguments must be given positionally", node)
        parts = []
        for pn, pty, a in zip(sm.params, sm.ptys, node.args):
            x = self.E(a, env)
            if x.ty != pty:
                self.err(f"argument {pn} of {sm.name}: {x.ty}, expected {pty}", a)
            if x.mon:
                self.err("argument of a method call may raise", a)
            parts.append(x)
        return parts

    def call(self, node, env):
        f = node.func
        src = ast.unparse(f)
        args = node.args
        m = self_call(node)
        if m is not None:
            if m not in self.sums:
                self.err("method call not accepted (not translated before its caller): self." + m, node)
            sm = self.sums[m]
            if sm.mut_self or sm.mut_params:
                self.err(f"self.{m} changes self or its arguments: accepted only as a statement / `x = self.{m}(..)`", node)
            if sm.ret == NONE:
                self.err(f"self.{m} returns nothing", node)
            parts = self.method_args(node, sm, env)
            return X(f"(gen_{m} {env['self'].name}{''.join(' ' + p.term for p in parts)})", sm.ret, True)
        if src == "np.zeros" and len(args) == 1 and not node.keywords:
            n = self.E(args[0], env)
            if n.ty != INT:
                self.err(f"np.zeros({n.ty})", node)
            return self.lift([n], lambda t: X(f"(r_zeros {t[0]})", ARR1, True))
        if src == "np.isnan":
            self.err("np.isnan is accepted in a condition only", node)
        if src == "np.array" and len(args) == 1 and not node.keywords:
            if isinstance(args[0], ast.List) and args[0].elts:
                parts = [self.E(e, env) for e in args[0].elts]
                for p, e in zip(parts, args[0].elts):
                    if p.ty != ARR1:
                        self.err("np.array([..]) of 1-D arrays only", e)
                return self.lift(parts, lambda t: X(f"(np_array_rows [{'; '.join(t)}])", ARR2, True))
            a = self.E(args[0], env)
            if a.ty == STORE:
                return self.lift([a], lambda t: X(f"(np_array_store {t[0]})", STORE, True))
            self.err(f"np.array({a.ty})", node)
        if src == "np.empty" and len(args) == 1 and isinstance(args[0], ast.Tuple) and len(args[0].elts) == 2:
            for kw in node.keywords:
                ok = kw.arg == "dtype" and isinstance(kw.value, ast.Attribute) and kw.value.attr == "dtype" \
                    and self.E(kw.value.value, env).ty == ARR2
                if not ok:
                    self.err("keyword of np.empty not accepted (only dtype=<2-D array>.dtype)", node)
            r, c = self.E(args[0].elts[0], env), self.E(args[0].elts[1], env)
            if r.ty != INT or c.ty != INT:
                self.err("np.empty((int, int)) only", node)
            return self.lift([r, c], lambda t: X(f"(np_empty junk {t[0]} {t[1]})", ARR2, True))
        if src == "Jackknife" and "Jackknife" not in env and len(args) == 3 and not node.keywords:
            origs = []
            for a in args:
                if not (isinstance(a, ast.Name) and a.id in env and env[a.id].orig is not None):
                    self.err("Jackknife(..) accepted only on the (guarded) arguments of the method", a)
                origs.append(env[a.id].orig)
            return X(f"(jk_new {' '.join(origs)})", JK, True)
        if isinstance(f, ast.Attribute) and f.attr == "compute_jackknife_estimates":
            jk = self.E(f.value, env)
            if jk.ty != JK or len(args) != 1:
                self.err("compute_jackknife_estimates(<2-D array>, function=self.<method>, ..) on a Jackknife object only", node)
            arr = self.E(args[0], env)
            if arr.ty != ARR2:
                self.err(f"compute_jackknife_estimates({arr.ty})", node)
            kws = {kw.arg: kw.value for kw in node.keywords}
            fn = kws.pop("function", None)
            if not (isinstance(fn, ast.Attribute) and isinstance(fn.value, ast.Name) and fn.value.id == "self"
                    and fn.attr in self.sums):
                self.err("function= must be a translated method of self", node)
            sm = self.sums[fn.attr]
            if sm.mut_self or sm.mut_params or sm.ret != SCAL or not sm.ptys or sm.ptys[0] != ARR2:
                self.err(f"self.{fn.attr} is not a pure function of a 2-D array", node)
            extra = []
            for pn, pty in zip(sm.params[1:], sm.ptys[1:]):
                if pn not in kws:
                    self.err(f"compute_jackknife_estimates: keyword {pn} of self.{fn.attr} is missing", node)
                x = self.E(kws.pop(pn), env)
                if x.ty != pty or x.mon:
                    self.err(f"keyword {pn}: {x.ty}, expected {pty}", node)
                extra.append(x.term)
            if kws:
                self.err("keyword not accepted: " + ", ".join(map(str, kws)), node)
            a_ = self.fresh("a")
            clo = f"(fun {a_} => gen_{fn.attr} {env['self'].name} {a_}{''.join(' ' + e for e in extra)})"
            return self.lift([jk, arr], lambda t: X(f"(jk_estimate {t[0]} {t[1]} {clo})", SCAL, True))
        if isinstance(f, ast.Attribute) and f.attr == "pT_abs" and not args and not node.keywords:
            p = self.E(f.value, env)
            if p.ty != P:
                self.err("pT_abs() of a particle only", node)
            return self.lift([p], lambda t: X(f"(p_pT_abs {t[0]})", SCAL))
        self.err("call not accepted: " + src, node)

    # ------------------------------------------------------------------ conditions -> X of Coq type bool
    def C(self, node, env):
        if isinstance(node, ast.BoolOp):
            parts = [self.C(v, env) for v in node.values]
            if any(p.mon for p in parts):
                self.err("an operand of and/or may raise", node)
            return X("(" + (" && " if isinstance(node.op, ast.And) else " || ").join(p.term for p in parts) + ")", BOOL)
        if isinstance(node, ast.UnaryOp) and isinstance(node.op, ast.Not):
            return self.lift([self.C(node.operand, env)], lambda t: X(f"(negb {t[0]})", BOOL))
        if isinstance(node, ast.Compare):
            return self.compare(node, env)
        if isinstance(node, ast.Name):
            x = self.E(node, env)
            if x.ty != BOOL:
                self.err(f"truth value of {x.ty} (a bool is needed: guard the argument with isinstance(.., bool))", node)
            return x
        if isinstance(node, ast.Call) and ast.unparse(node.func) == "np.isnan" and len(node.args) == 1 and not node.keywords:
            a = self.E(node.args[0], env)
            if a.ty != SCAL:
                self.err(f"np.isnan({a.ty})", node)
            return self.lift([a], lambda t: X(f"(np_isnan {t[0]})", BOOL))
        self.err("condition not accepted: " + ast.unparse(node)[:70], node)

    def cmp1(self, a, op, b, node):
        k = type(op)
        if a.ty == INT and b.ty == INT:
            t = {ast.LtE: "({0} <=? {1})%Z", ast.Lt: "({0} <? {1})%Z", ast.GtE: "({1} <=? {0})%Z", ast.Gt: "({1} <? {0})%Z",
                 ast.Eq: "({0} =? {1})%Z", ast.NotEq: "(negb ({0} =? {1})%Z)"}
        elif {a.ty, b.ty} <= {FQ, FLIT} and FQ in (a.ty, b.ty):
            a, b = self.coerce(a, FQ, node), self.coerce(b, FQ, node)
            t = {ast.LtE: "(fq_leb {0} {1})", ast.Lt: "(fq_ltb {0} {1})", ast.GtE: "(fq_leb {1} {0})", ast.Gt: "(fq_ltb {1} {0})"}
        else:
            self.err(f"comparison of {a.ty} and {b.ty}", node)
        if k not in t:
            self.err("comparison operator not accepted: " + k.__name__, node)
        return t[k].format(a.term, b.term)

    def compare(self, node, env):
        operands = [self.E(node.left, env)] + [self.E(c, env) for c in node.comparators]
        if any(o.mon for o in operands):
            self.err("an operand of a comparison may raise", node)
        return X("(" + " && ".join(self.cmp1(operands[i], op, operands[i + 1], node) for i, op in enumerate(node.ops)) + ")", BOOL)

    # ------------------------------------------------------------------ statements
    def carried(self, env, stmts):
        return [n for n in self.assigned(stmts) if n in env]

    def names(self, ns, env):
        return [env[n].name for n in ns]

    def bind_name(self, name, x, env, cont, node):
        if x.ty in (FLIT, NONEC, EMPTYL) or isinstance(x.ty, tuple):
            self.err(f"a value of type {x.ty} cannot be bound to a name", node)
        if name == "self" or (name in env and env[name].param):
            self.err(f"rebinding of {name} not accepted", node)
        if name in env and env[name].ty != x.ty:
            self.err(f"variable {name} changes type from {env[name].ty} to {x.ty}", node)
        if x.var is not None and x.ty in (ARR1, ARR2, STORE, EV, EVS, P):
            self.err(f"a second name for the object {x.var} (aliasing not modelled)", node)
        env2 = dict(env)
        env2[name] = Var(vname(name), x.ty, view=x.view)
        if x.mon:
            return f"(bind {x.term} (fun {vname(name)} => {cont(env2)}))"
        return f"(let {vname(name)} := {x.term} in {cont(env2)})"

    def set_self(self, attr, x, env, cont, node):
        if attr not in FIELDS:
            self.err("attribute of self not accepted: " + attr, node)
        x = self.coerce(x, FIELDS[attr], node)
        s = env["self"].name
        if self.in_init:
            self.init_assigned.add(attr)
        if x.mon:
            t = self.fresh()
            return f"(bind {x.term} (fun {t} => let {s} := set_{attr} {s} {t} in {cont(env)}))"
        return f"(let {s} := set_{attr} {s} {x.term} in {cont(env)})"

    def escape(self, name, env, node, in_loop):
        if in_loop:
            self.err(f"the array {name} is stored in self inside a loop (aliasing not modelled)", node)
        env2 = dict(env)
        env2[name] = env[name].but(escaped=True)
        return env2

    def local_array(self, name, ty, env, node):
        if name not in env or env[name].ty != ty:
            self.err(f"element assignment to {name}: not a local array of the right type", node)
        v = env[name]
        if v.param or v.view or v.escaped:
            self.err(f"element assignment to {name}, which is an argument, a view of another array or already stored in self "
                     "(aliasing not modelled)", node)

    def impure_call(self, call, targets, env, cont, node):
        """`self.m(args)` as a statement or the value of an assignment"""
        m = self_call(call)
        sm = self.sums[m]
        parts = self.method_args(call, sm, env)
        for i in sm.mut_params:
            if not isinstance(call.args[i], ast.Name):
                self.err(f"self.{m} changes the particles of argument {i}: it must be a name", call)
        term = f"(gen_{m} {env['self'].name}{''.join(' ' + p.term for p in parts)})"
        env2 = dict(env)
        pats = []
        if sm.ret != NONE:
            if targets is None:
                self.err(f"the value returned by self.{m} is discarded", node)
            if isinstance(targets, ast.Tuple):
                if not (isinstance(sm.ret, tuple) and len(sm.ret[1]) == len(targets.elts)
                        and all(isinstance(e, ast.Name) for e in targets.elts)):
                    self.err("tuple assignment does not match the returned tuple", node)
                inner = []
                for e, ty in zip(targets.elts, sm.ret[1]):
                    if e.id in env and (env[e.id].ty != ty or env[e.id].param):
                        self.err(f"variable {e.id} changes type / is an argument", node)
                    env2[e.id] = Var(vname(e.id), ty)
                    inner.append(vname(e.id))
                pats.append("(" + ", ".join(inner) + ")")
            elif isinstance(targets, ast.Name):
                if isinstance(sm.ret, tuple) or (targets.id in env and (env[targets.id].ty != sm.ret or env[targets.id].param)):
                    self.err(f"assignment of the result of self.{m} to {targets.id} not accepted", node)
                env2[targets.id] = Var(vname(targets.id), sm.ret)
                pats.append(vname(targets.id))
            else:
                self.err("assignment target not accepted", node)
        elif targets is not None:
            self.err(f"self.{m} returns nothing", node)
        if sm.mut_self:
            pats.append(env["self"].name)
        for i in sm.mut_params:
            n = call.args[i].id
            pats.append(env[n].name)
        if not pats:
            return f"(bind {term} (fun _ => {cont(env2)}))"
        return f"(bind {term} (fun {lam(pats)} => {cont(env2)}))"

    def out_tuple(self, env, retterm):
        sm = self.cur
        ts = ([] if retterm is None else [retterm]) + ([env["self"].name] if sm.mut_self else []) \
            + [env[sm.params[i]].name for i in sm.mut_params]
        return tup(ts)

    def S(self, stmts, env, k, in_loop):
        if not stmts:
            return k(env)
        st, rest = stmts[0], stmts[1:]

        def cont(env2):
            return self.S(rest, env2, k, in_loop)
        if isinstance(st, ast.Expr) and isinstance(st.value, ast.Constant) and isinstance(st.value.value, str):
            return cont(env)
        if isinstance(st, ast.Raise):
            if rest:
                self.err("statements after raise", rest[0])
            e = st.exc
            if not (isinstance(e, ast.Call) and isinstance(e.func, ast.Name) and e.func.id in EXN and not e.keywords
                    and all(_is_msg(a) for a in e.args) and st.cause is None):
                self.err("raise of this form not accepted", st)
            return f"(Err {e.func.id})"
        if isinstance(st, ast.Return):
            if rest:
                self.err("statements after return", rest[0])
            if in_loop:
                self.err("return inside a loop not accepted", st)
            if st.value is None:
                self.err("bare return not accepted", st)
            x = self.E(st.value, env)
            if x.ty == FLIT:
                x = self.coerce(x, SCAL, st)
            if self.ret is None:
                self.ret_seen.append(x.ty)
                return "RET"
            if self.ret == RET2:
                if x.ty == ARR1:
                    x = self.lift([x], lambda t: X(f"(RetArr {t[0]})", RET2))
                else:
                    x = self.lift([x], lambda t: X(f"(let '(a_, b_) := {t[0]} in RetPair a_ b_)", RET2))
            elif x.ty != self.ret:
                self.err(f"return of {x.ty}, expected {self.ret}", st)
            return self.lift([x], lambda t: X(self.out_tuple(env, t[0]), "OUT")).term if x.mon \
                else f"(Ok {self.out_tuple(env, x.term)})"
        if isinstance(st, ast.AnnAssign):
            if not (st.simple == 0 and st.value is not None and isinstance(st.target, ast.Attribute)):
                self.err("annotated assignment accepted only as `self.attr: T = value`", st)
            st = ast.copy_location(ast.Assign(targets=[st.target], value=st.value), st)
        if isinstance(st, ast.Assign):
            if len(st.targets) != 1:
                self.err("chained assignment not accepted", st)
            t = st.targets[0]
            if self_call(st.value) is not None and self_call(st.value) in self.sums and \
                    (self.sums[self_call(st.value)].mut_self or self.sums[self_call(st.value)].mut_params
                     or isinstance(t, ast.Tuple)):
                return self.impure_call(st.value, t, env, cont, st)
            x = self.E(st.value, env)
            if isinstance(t, ast.Name):
                if x.ty == FLIT:
                    x = self.coerce(x, SCAL, st)
                return self.bind_name(t.id, x, env, cont, st)
            if isinstance(t, ast.Attribute) and isinstance(t.value, ast.Name):
                if t.value.id == "self":
                    env2 = env
                    if x.var is not None and x.ty == ARR1:
                        env2 = self.escape(x.var, env, st, in_loop)
                    elif x.ty == ARR1 or x.ty == ARR2:
                        self.err("only a named array can be stored in self", st)
                    return self.set_self(t.attr, x, env2, cont, st)
                b = t.value.id
                if b in env and env[b].ty == P and t.attr == "weight":
                    x = self.coerce(x, SCAL, st)
                    p = env[b].name
                    return self.lift([x], lambda a: X(f"(let {p} := p_set_weight {p} {a[0]} in {cont(env)})", "S", True)).term
                self.err("attribute assignment not accepted: " + ast.unparse(t), st)
            if isinstance(t, ast.Subscript) and isinstance(t.value, ast.Name):
                return self.set_item(t, x, env, cont, st)
            self.err("assignment target not accepted", st)
        if isinstance(st, ast.AugAssign):
            names = {ast.Add: "r_sadd", ast.Sub: "r_ssub", ast.Mult: "r_smul"}
            if type(st.op) not in names:
                self.err("augmented operator not accepted", st)
            op = names[type(st.op)]
            t = st.target
            if isinstance(t, ast.Name):
                if t.id not in env or env[t.id].ty != SCAL or env[t.id].param:
                    self.err(f"augmented assignment to {t.id}: not a local scalar", st)
                x = self.coerce(self.E(st.value, env), SCAL, st)
                r = self.lift([x], lambda a: X(f"({op} {env[t.id].name} {a[0]})", SCAL))
                return self.bind_name(t.id, r, env, cont, st)
            if isinstance(t, ast.Subscript) and isinstance(t.value, ast.Name):
                a = t.value.id
                self.local_array(a, ARR1, env, st)
                i = self.E(t.slice, env)
                if i.ty != INT or i.mon:
                    self.err("index of an augmented element assignment must be a pure int", st)
                x = self.coerce(self.E(st.value, env), SCAL, st)
                old = self.fresh()
                va = env[a].name
                inner = self.lift([x], lambda e: X(f"(bind (arr_set {va} {i.term} ({op} {old} {e[0]})) (fun {va} => {cont(env)}))", "S", True))
                return f"(bind (arr_get {va} {i.term}) (fun {old} => {inner.term}))"
            self.err("augmented assignment target not accepted", st)
        if isinstance(st, ast.Expr) and isinstance(st.value, ast.Call):
            c = st.value
            if self_call(c) is not None:
                if self_call(c) not in self.sums:
                    self.err("method call not accepted (not translated before its caller): self." + self_call(c), st)
                return self.impure_call(c, None, env, cont, st)
            f = c.func
            if (isinstance(f, ast.Attribute) and f.attr == "append" and isinstance(f.value, ast.Attribute)
                    and isinstance(f.value.value, ast.Name) and f.value.value.id == "self" and not c.keywords and len(c.args) == 1):
                fld = f.value.attr
                if FIELDS.get(fld) != STORE:
                    self.err("append accepted only on self.N_events / self.D_events", st)
                x = self.E(c.args[0], env)
                if x.ty != ARR1 or x.var is None:
                    self.err("append of a named 1-D array only", st)
                env2 = self.escape(x.var, env, st, in_loop)
                s = env["self"].name
                t = self.fresh()
                return f"(bind (store_append (o_{fld} {s}) {x.term}) (fun {t} => let {s} := set_{fld} {s} {t} in {cont(env2)}))"
            self.err("expression statement not accepted: " + ast.unparse(c.func), st)
        if isinstance(st, ast.If):
            return self.tr_if(st, rest, env, k, in_loop)
        if isinstance(st, ast.For):
            return self.tr_for(st, rest, env, k, in_loop)
        self.err("statement not accepted: " + type(st).__name__, st)

    def set_item(self, t, x, env, cont, st):
        a = t.value.id
        s = t.slice
        if isinstance(s, ast.Tuple):
            if not (len(s.elts) == 2 and self.full_slice(s.elts[0]) and isinstance(s.elts[1], ast.Slice)):
                self.err("two-index element assignment accepted only as A[:, a::b] = B", st)
            c = s.elts[1]
            self.local_array(a, ARR2, env, st)

            def nat(e, least):
                if e is None:
                    return None
                v = int_const(e, self.path)
                if v < least:
                    self.err("slice constant out of range", st)
                return v
            if c.upper is not None:
                self.err("two-index element assignment accepted only as A[:, a::b] = B", st)
            lo, step = nat(c.lower, 0) or 0, nat(c.step, 1) or 1
            if x.ty != ARR2:
                self.err(f"assignment of {x.ty} to columns of a 2-D array", st)
            va = env[a].name
            return self.lift([x], lambda e: X(f"(bind (nd_set_cols_step {va} {lo} {step} {e[0]}) (fun {va} => {cont(env)}))", "S", True)).term
        if isinstance(s, ast.Slice):
            self.err("slice assignment not accepted", st)
        self.local_array(a, ARR1, env, st)
        i = self.E(s, env)
        if i.ty != INT:
            self.err("index is not an int", st)
        x = self.coerce(x, SCAL, st)
        va = env[a].name
        # Python evaluates the right-hand side first, then the index
        return self.lift([x, i], lambda e: X(f"(bind (arr_set {va} {e[1]} {e[0]}) (fun {va} => {cont(env)}))", "S", True)).term

    def guard(self, st, env):
        """`if not isinstance(x, T): raise Cls(..)` on a PYVAL x -> (name, projection, refined type) or None"""
        t = st.test
        if not (isinstance(t, ast.UnaryOp) and isinstance(t.op, ast.Not) and isinstance(t.operand, ast.Call)
                and isinstance(t.operand.func, ast.Name) and t.operand.func.id == "isinstance" and "isinstance" not in env):
            return None
        c = t.operand
        if not (len(c.args) == 2 and not c.keywords and isinstance(c.args[0], ast.Name) and c.args[0].id in env
                and env[c.args[0].id].ty == PYVAL and isinstance(c.args[1], ast.Name)):
            self.err("isinstance accepted only as `if not isinstance(<argument>, float|int|bool): raise ...`", st)
        table = {"float": ("py_as_float", FQ), "int": ("py_as_int", INT), "bool": ("py_as_bool", BOOL)}
        if c.args[1].id not in table or c.args[1].id in env:
            self.err("isinstance type not accepted: " + c.args[1].id, st)
        if st.orelse or not (len(st.body) == 1 and isinstance(st.body[0], ast.Raise)):
            self.err("the isinstance guard must be `if not isinstance(..): raise ...`", st)
        return (c.args[0].id,) + table[c.args[1].id]

    def tr_if(self, st, rest, env, k, in_loop):
        g = self.guard(st, env)
        if g is not None:
            name, proj, ty = g
            bad = self.S(st.body, env, None, in_loop)
            v = env[name]
            env2 = dict(env)
            new = "g_" + name if v.name.startswith("v_") else v.name + "_"
            env2[name] = Var(new, ty, orig=v.orig or v.name, param=True)
            good = self.S(rest, env2, k, in_loop)
            return f"(match {proj} {v.name} with None => {bad} | Some {new} => {good} end)"
        if self.in_init and not (terminates(st.body) and not st.orelse):
            self.err("__init__: only `if ..: raise` is accepted", st)
        c = self.C(st.test, env)
        tb, te = terminates(st.body), terminates(st.orelse)

        def ite(b, e):
            if c.mon:
                v = self.fresh("c")
                return f"(bind {c.term} (fun {v} => if {v} then {b} else {e}))"
            return f"(if {c.term} then {b} else {e})"
        if tb and te:
            if rest:
                self.err("statements after an if whose branches all leave", rest[0])
            return ite(self.S(st.body, env, k, in_loop), self.S(st.orelse, env, k, in_loop))
        if tb:
            return ite(self.S(st.body, env, k, in_loop), self.S(st.orelse + rest, env, k, in_loop))
        if te:
            return ite(self.S(st.body + rest, env, k, in_loop), self.S(st.orelse, env, k, in_loop))
        if not rest:
            return ite(self.S(st.body, env, k, in_loop), self.S(st.orelse, env, k, in_loop))
        jvars = self.carried(env, [st])
        for n in self.assigned([st]):
            if n not in env and self.read_later(n, rest):
                self.err(f"variable {n} is first bound inside a branch and read afterwards", st)
        joined = {}

        def kj(e):
            for n in jvars:
                if e[n].ty != env[n].ty:
                    self.err(f"variable {n} changes type in a branch", st)
                if e[n].view or e[n].escaped:
                    joined[n] = e[n]
            return "(Ok " + tup(self.names(jvars, e)) + ")"
        term = ite(self.S(st.body, env, kj, in_loop), self.S(st.orelse, env, kj, in_loop))
        env2 = dict(env)
        for n, v in joined.items():
            env2[n] = env[n].but(view=env[n].view or v.view, escaped=env[n].escaped or v.escaped)
        return f"(bind {term} (fun {lam(self.names(jvars, env))} => {self.S(rest, env2, k, in_loop)}))"

    def tr_for(self, st, rest, env, k, in_loop):
        if st.orelse:
            self.err("for-else not accepted", st)
        if not isinstance(st.target, ast.Name):
            self.err("loop target not accepted", st)
        for n in ast.walk(st):
            if isinstance(n, (ast.Continue, ast.Break)):
                self.err("continue/break not accepted", n)
        tn = st.target.id
        if tn in env:
            self.err(f"loop variable {tn} shadows a bound name", st)
        if self.read_later(tn, rest):
            self.err(f"loop variable {tn} is read after the loop", st)
        asg = self.assigned(st.body)
        for n in asg:
            if n not in env and n != tn and self.read_later(n, rest):
                self.err(f"variable {n} is first bound inside the loop and read after it", st)
        state = [n for n in asg if n in env]
        it = st.iter
        is_range = isinstance(it, ast.Call) and isinstance(it.func, ast.Name) and it.func.id == "range" and "range" not in env
        if is_range:
            if len(it.args) != 1 or it.keywords:
                self.err("range(n) only", st)
            n = self.E(it.args[0], env)
            if n.ty != INT:
                self.err("range of a non-int", st)
            items, elty, container = self.lift([n], lambda t: X(f"(py_range {t[0]})", "ITER")), INT, None
            if tn in asg:
                self.err("the loop variable of a range loop is assigned in the body", st)
            if len(st.body) == 1 and isinstance(st.body[0], ast.If) and self.is_order_chain(st.body[0], tn):
                return self.order_loop(st, items, rest, env, k, in_loop)
        else:
            if not (isinstance(it, ast.Name) and it.id in env and env[it.id].ty in ELEM):
                self.err("iteration accepted only over range(n) or a named list of events / particles", st)
            items, elty, container = X(env[it.id].name, env[it.id].ty), ELEM[env[it.id].ty], it.id
            if container in asg:
                self.err("the list a loop runs over is changed in the loop", st)

        def check(e):
            for n in state:
                if e[n].ty != env[n].ty:
                    self.err(f"loop-carried variable {n} changes type", st)
                if e[n].view:
                    self.err(f"loop-carried variable {n} becomes a view", st)
        envb = dict(env)
        envb[tn] = Var(vname(tn), elty)
        spat = lam(self.names(state, env))
        stup = tup(self.names(state, env))
        mut = (not is_range) and tn in asg
        if mut:
            def k_next(e):
                check(e)
                return f"(Ok ({tup(self.names(state, e))}, {e[tn].name}))"
            body = self.S(st.body, envb, k_next, True)
            c = env[container].name
            res = self.fresh("r")
            after = self.S(rest, env, k, in_loop)
            unpack = f"let {c} := snd {res} in " + (f"let {lam(self.names(state, env))} := fst {res} in " if state else "")
            return (f"(bind (for_mut (fun {spat} {vname(tn)} => {body}) {items.term} {stup}) "
                    f"(fun {res} => {unpack}{after}))")

        def k_next(e):
            check(e)
            return f"(Ok {tup(self.names(state, e))})"
        body = self.S(st.body, envb, k_next, True)
        loop = self.lift([items], lambda t: X(f"(fold_leftM (fun {spat} {vname(tn)} => {body}) {t[0]} {stup})", "S", True))
        return f"(bind {loop.term} (fun {spat} => {self.S(rest, env, k, in_loop)}))"

    # ------------------------------------------------------------------ the polynomial if-chains
    @staticmethod
    def is_order_chain(node, var):
        t = node.test
        return (isinstance(t, ast.Compare) and len(t.ops) == 1 and isinstance(t.ops[0], ast.Eq)
                and isinstance(t.left, ast.Name) and t.left.id == var)

    def reads(self, value, arrays, var, c):
        """largest index read from each array by a polynomial right-hand side (poly.expr accepted it)"""
        out = {}
        for n in ast.walk(value):
            if isinstance(n, ast.Subscript):
                if not (isinstance(n.value, ast.Name) and n.value.id in arrays):
                    self.err("polynomial reads an unknown array", n)
                i = c if (isinstance(n.slice, ast.Name) and n.slice.id == var) else int_const(n.slice, self.path)
                out[n.value.id] = max(out.get(n.value.id, -1), i)
            elif isinstance(n, ast.Name) and n.id not in arrays and n.id != var:
                self.err("polynomial reads the name " + n.id, n)
        return out

    def order_loop(self, st, items, rest, env, k, in_loop):
        """for order in range(n): if order == c0: N[order] = <poly>; D[order] = <poly> elif ... (no else)"""
        var = st.target.id
        chain, els = poly.if_chain(st.body[0], var, self.path)
        if els:
            self.err("unexpected else branch in the order chain", st)
        for a in POLY_ARRAYS:
            if a not in env or env[a].ty != ARR1:
                self.err(f"the order chain needs the 1-D array {a}", st)
        state = [n for n in self.assigned(st.body) if n in env]
        seen = []
        vo = vname(var)

        def branch(c, body):
            if c < 0 or c in seen:
                self.err("order constant negative or repeated", body[0])
            seen.append(c)
            got = []
            term_parts = []
            for s in body:
                if not (isinstance(s, ast.Assign) and len(s.targets) == 1 and isinstance(s.targets[0], ast.Subscript)
                        and isinstance(s.targets[0].value, ast.Name) and isinstance(s.targets[0].slice, ast.Name)
                        and s.targets[0].slice.id == var):
                    self.err("expected `N[order] = ...` / `D[order] = ...`", s)
                name = s.targets[0].value.id
                if name not in POLY_TARGETS or name in got:
                    self.err("unexpected assignment target " + name, s)
                got.append(name)
                self.local_array(name, ARR1, env, s)
                poly.expr(s.value, POLY_ARRAYS, self.path, {var: c})
                rd = self.reads(s.value, POLY_ARRAYS, var, c)
                term_parts.append((name, rd))
            if set(got) != set(POLY_TARGETS):
                self.err("branch must assign N and D", body[0])
            inner = "(Ok " + tup(self.names(state, env)) + ")"
            for name, rd in reversed(term_parts):
                va = env[name].name
                t = self.fresh()
                inner = (f"(bind (poly_val ({POLY_TARGETS[name]} {c}%nat (arr_fn {env['Pk'].name}) (arr_fn {env['Wk'].name}))) "
                         f"(fun {t} => bind (arr_set {va} {vo} {t}) (fun {va} => {inner})))")
                for a in sorted(rd, reverse=True):
                    inner = f"(bind (arr_need {env[a].name} {rd[a]}) (fun _ => {inner}))"
            return inner
        body = "(Ok " + tup(self.names(state, env)) + ")"
        for c, b in reversed(chain):
            body = f"(if ({vo} =? {c})%Z then {branch(c, b)} else {body})"
        spat = lam(self.names(state, env))
        loop = self.lift([items], lambda t: X(f"(fold_leftM (fun {spat} {vo} => {body}) {t[0]} {tup(self.names(state, env))})", "S", True))
        return f"(bind {loop.term} (fun {spat} => {self.S(rest, env, k, in_loop)}))"

    def kappa_fn(self, fdef, sm):
        """if k == 1: kappa = <poly> elif ... else: raise Cls(..); return kappa"""
        body = strip_doc(fdef.body)
        carr, kvar = sm.params
        if not (len(body) == 2 and isinstance(body[1], ast.Return) and isinstance(body[1].value, ast.Name)
                and isinstance(body[0], ast.If)):
            self.err("expected an if-chain followed by `return <name>`", fdef)
        res = body[1].value.id
        chain, els = poly.if_chain(body[0], kvar, self.path)
        exn = self.S(els, {}, None, False) if len(els) == 1 and isinstance(els[0], ast.Raise) else None
        if exn is None:
            self.err("expected a final `else: raise ...`", fdef)
        term = exn
        seen = []
        for c, b in reversed(chain):
            if c < 0 or c in seen:
                self.err("order constant negative or repeated", b[0])
            seen.append(c)
            if not (len(b) == 1 and isinstance(b[0], ast.Assign) and len(b[0].targets) == 1
                    and isinstance(b[0].targets[0], ast.Name) and b[0].targets[0].id == res):
                self.err(f"expected `{res} = <polynomial>`", b[0])
            poly.expr(b[0].value, {carr: "C"}, self.path)
            rd = self.reads(b[0].value, {carr: "C"}, None, None)
            inner = f"(poly_val (r_kappa {c}%nat (arr_fn {vname(carr)})))"
            if carr in rd:
                inner = f"(bind (arr_need {vname(carr)} {rd[carr]}) (fun _ => {inner}))"
            term = f"(if ({vname(kvar)} =? {c})%Z then {inner} else {term})"
        sm.ret, sm.mut_self, sm.mut_params = SCAL, False, []
        return term

    # ------------------------------------------------------------------ functions
    def function(self, fdef, ptys):
        a = fdef.args
        if a.vararg or a.kwarg or a.kwonlyargs or a.posonlyargs or not a.args or a.args[0].arg != "self":
            self.err("argument kinds not accepted", fdef)
        if fdef.decorator_list:
            self.err("decorators not accepted", fdef)
        params = [p.arg for p in a.args[1:]]
        if len(params) != len(ptys):
            self.err(f"{fdef.name}: {len(ptys)} arguments expected", fdef)
        if len(a.defaults) > len(params):
            self.err("defaults not accepted", fdef)
        sm = Summary(fdef.name, params, ptys)
        self.cur, self.fname = sm, fdef.name
        self.in_init = fdef.name == "__init__"
        self.init_assigned = set()
        body = strip_doc(fdef.body)
        header = f"(* def {fdef.name}({' '.join(ast.unparse(a).split())}) *)\n"
        binders = "".join(f" ({vname(p)} : {COQ_TY[t]})" for p, t in zip(params, ptys))
        if fdef.name == "_kappa_cumulant":
            term = self.kappa_fn(fdef, sm)
            self.sums[fdef.name] = sm
            return header + f"Definition gen_{fdef.name} (v_self : obj K){binders} : result (scalar K) :=\n  {term}.\n"
        eff = self.assigned(body)
        sm.mut_self = "self" in eff
        sm.mut_params = [i for i, (p, t) in enumerate(zip(params, ptys)) if p in eff and t in MUTABLE]
        for p, t in zip(params, ptys):
            if p in eff and t not in MUTABLE and t != PYVAL:
                self.err(f"the argument {p} is assigned in the body", fdef)
        env0 = {"self": Var("v_self", OBJ, param=True)}
        for p, t in zip(params, ptys):
            env0[p] = Var(vname(p), t, orig=vname(p) if t == PYVAL else None, param=True)

        def kend(e):
            if sm.ret not in (None, NONE):
                self.err("the method may end without returning", fdef)
            self.ret_seen.append(NONE)
            return f"(Ok {self.out_tuple(e, None)})"
        self.ret, self.ret_seen = None, []
        sm.ret = NONE          # provisional (out_tuple during the first pass)
        self.init_assigned = set()
        self.S(body, env0, kend, False)
        tys = set(self.ret_seen)
        if tys == {ARR1, ("TUP", (ARR1, ARR1))}:
            ret = RET2
        elif len(tys) == 1:
            ret = tys.pop()
        else:
            self.err("return statements of different types: " + repr(sorted(map(str, tys))), fdef)
        sm.ret = ret
        self.ret, self.n = ret, 0
        self.init_assigned = set()
        term = self.S(body, env0, kend, False)
        self.sums[fdef.name] = sm
        if self.in_init:
            return header + f"Definition gen_{fdef.name}{binders} : result (obj K) :=\n  let v_self := obj_blank K in\n  {term}.\n"
        return header + f"Definition gen_{fdef.name} (v_self : obj K){binders} : result {sm.out_type()} :=\n  {term}.\n"


def default_term(d, path):
    if isinstance(d, ast.Constant):
        v = d.value
        if isinstance(v, bool):
            return f"(PBool {'true' if v else 'false'})"
        if isinstance(v, int):
            return f"(PInt {z_lit(v)})"
        if isinstance(v, float) and v == v and v not in (float("inf"), float("-inf")):
            fr = Fraction(v)
            n = f"{fr.numerator}" if fr.numerator >= 0 else f"({fr.numerator})"
            return f"(PFloat (FQ ({n} # {fr.denominator})%Q))"
    raise TranslateError("default value not accepted: " + ast.unparse(d), d, path)


def generate():
    tree, path = parse(SRC)
    imports = [ast.unparse(n) for n in tree.body if isinstance(n, (ast.Import, ast.ImportFrom))]
    for need in IMPORTS:
        if need not in imports:
            raise TranslateError("import changed: expected `" + need + "`", tree.body[0] if tree.body else None, path)
    for n in tree.body:
        if isinstance(n, (ast.FunctionDef, ast.Assign)) or (isinstance(n, ast.ClassDef) and n.name != CLASS):
            raise TranslateError("module-level definition not accepted", n, path)
    cls = find_class(tree, CLASS)
    if cls.bases or cls.decorator_list or cls.keywords:
        raise TranslateError("base classes / decorators not accepted", cls, path)
    known = [m for m, _ in METHODS]
    for n in strip_doc(cls.body):
        if not isinstance(n, ast.FunctionDef):
            raise TranslateError("class member not accepted", n, path)
        if n.name not in known:
            raise TranslateError(f"method {n.name} is not part of the fragment", n, path)
    tr = Translator(path)
    defs = []
    extra = []
    for name, ptys in METHODS:
        fdef = find_func(cls, name)
        if sum(1 for n in cls.body if isinstance(n, ast.FunctionDef) and n.name == name) != 1:
            raise TranslateError(f"method {name} defined more than once", fdef, path)
        defs.append(tr.function(fdef, ptys))
        if name in PUBLIC:
            args = fdef.args.args[1:]
            extra.append(f"Definition gen_{name}_args : list string := [" + "; ".join(f'"{a.arg}"%string' for a in args) + "].\n")
            ds = fdef.args.defaults
            for a, d in zip(args[len(args) - len(ds):], ds):
                extra.append(f"Definition gen_{name}_default_{a.arg} : pyval := {default_term(d, path)}.\n")
    out = [HEADER,
           "From Coq Require Import String List ZArith QArith Bool.\n"
           "From SX Require Import Lib.Py Lib.KRing Gen.GenPtCorr Model.PtCorr Model.PtCorrRt.\nImport ListNotations.\n\n",
           "(* names and defaults of the arguments of the public methods *)\n"] + extra + [
           "\nSection Methods.\n"
           "  Variable K : Type.\n  Variables (k0 k1 : K) (kadd kmul ksub : K -> K -> K) (kopp : K -> K).\n"
           "  Variable kdiv : K -> K -> K.\n  Variable kis0 : K -> bool.\n"
           "  (* np.empty: the previous content of the memory *)\n  Variable junk : F K.\n"
           "  (* sparkx.Jackknife: the constructor and compute_jackknife_estimates(data, function=f, **kwargs) *)\n"
           "  Variable JK : Type.\n  Variable jk_new : pyval -> pyval -> pyval -> result JK.\n"
           "  Variable jk_estimate : JK -> nd K -> (nd K -> result (scalar K)) -> result (scalar K).\n\n"
           "  Local Notation r_lit := (flit k0 k1 kadd kmul kopp).\n"
           "  Local Notation r_sadd := (sadd kadd).\n  Local Notation r_ssub := (ssub ksub).\n"
           "  Local Notation r_smul := (smul kmul).\n  Local Notation r_sneg := (sneg kopp).\n"
           "  Local Notation r_sdiv := (sdiv kdiv kis0).\n  Local Notation r_spow := (spow k1 kmul kdiv kis0).\n"
           "  Local Notation r_zeros := (np_zeros k0).\n"
           "  (* the polynomials of Gen/GenPtCorr.v at the floats *)\n"
           "  Local Notation r_N := (gen_N (F K) (f0 k0) (f1 k1) (fadd kadd) (fmul kmul) (fsub ksub) (fopp kopp)).\n"
           "  Local Notation r_D := (gen_D (F K) (f0 k0) (f1 k1) (fadd kadd) (fmul kmul) (fsub ksub) (fopp kopp)).\n"
           "  Local Notation r_kappa := (gen_kappa (F K) (f0 k0) (f1 k1) (fadd kadd) (fmul kmul) (fsub ksub) (fopp kopp)).\n\n"]
    for d in defs:
        out.append(d + "\n")
    out.append("End Methods.\n")
    return "".join(out)


def main(outdir):
    return write_if_changed(outdir + "/GenPtCorrMethods.v", generate())

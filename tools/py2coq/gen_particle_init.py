"""Gen/GenParticleInit.v from src/sparkx/Particle.py: the construction of a Particle from one line of a file, as
Gallina over Model/ParticleInitRt.v.  Proofs/ParticleInit_Source.v proves the hand models (Model/Oscar.v
`blank`, `mk_particle`; Model/Jetscape.v `mk_jet_particle`) equal to what is generated here.

Translated AS WRITTEN (statements in order, conditions with their operators and constants, argument order, defaults,
exception classes), every definition takes the oracle record `o` first:
  Particle.__init__                    -> gen_init o input_format particle_array attribute_list : result particle
                                          (+ gen_default_init_<parameter> for the three defaults)
  Particle.__initialize_from_array     -> gen_initialize_from_array o self input_format particle_array attribute_list
  every property getter / setter and every method these reach through `self.<name>` (transitively; currently the
  getters E px py pz pdg charge pdg_valid, the setters mass charge pdg_valid, mass_from_energy_momentum, p_abs,
  charge_from_pdg)                     -> gen_get_<name> o self / gen_set_<name> o self value / gen_<name> o self
  list / dict literals                 -> gen_lit_<method>_<kind><k> (k-th literal of that kind in the method, in
                                          source order); Proofs/ParticleInit_Source.v proves them equal to the tables of
                                          Gen/GenParticleMap.v and to `massless_pdg` of the hand model

Conventions of the translation (Model/ParticleInitRt.v fixes the meaning of every primitive used):
  * a Python local `x` is the Coq variable `v_x`, rebinding is shadowing; `self` is threaded (Particle has the single
    slot `data_`, so self is the data_ array; `self.data_ = a` makes `a` the object);
  * every translated function returns `result T` (Ok / Err cls of Model/Oscar.v); an expression that can raise is
    bound with `bind` in Python's evaluation order (left to right, right-hand side before the store), `and` / `or`
    short-circuit (`andE` / `orE` when an operand can raise);
  * types: float / np.float64 / value stored in data_ = `num` (option Q, None = nan); float(token), int(token) = Q;
    len(), int literals = Z; table entries and list.index = nat; str; bool; list; dict (string keys); a parameter that
    is tested against None is an option; a two-element list of table indices is a pair;
  * `if` / `elif` / `else`: a branch that ends in raise / return / continue is terminal, the statements after the `if`
    continue in the other branch; if both branches fall through, the variables assigned in them are joined;
    `if (A is not None) and (B is not None):` narrows A and B to their values in the body;
  * `for x in L` / `for k, v in D.items()` is `loopE` over the variables that the body assigns and that exist before the
    loop; the loop targets and body-local names are not visible after the loop;
  * reading `self.data_[k]` / `l[k]` out of range raises IndexError, `d[k]` KeyError, `l.index(x)` ValueError, iterating
    or `list()` of None TypeError, `float()`/`int()` of a rejected token ValueError, `int(nan)` ValueError,
    `PDGID(nan)` ValueError;
  * `warnings.warn(msg)` and the message of `raise Cls(msg)` have no effect on the modelled state EXCEPT the exceptions
    raised while the message is evaluated (`str(int(self.pdg))`): the sub-expressions under `str(...)` / f-string holes
    are evaluated and dropped;
  * `x ** 2.0` (exponent literally 2) is `num_pow2`; `abs` / `np.abs` is `num_abs`; `np.array(l, dtype=float)` is `l`;
  * oracles (fields of the record `o`, the Section variables of the hand model): float(token), int(token),
    PDGID(x).is_valid, PDGID(x).charge, np.sqrt.
Pinned textually (compared with the stored text, fail-closed): the parameter names and annotations of `__init__` and
`__initialize_from_array` (they fix the types above); the annotations `float` / `bool` of the setter parameters and the
return annotations (`float`, `Union[int, float]`, `bool`, `None`) of the reached functions; the decorators `@property` /
`@<name>.setter`; `__slots__ = ["data_"]`; the class has no base class and its body holds only `__slots__` and function
definitions, each name once; the module imports `numpy as np`, `PDGID` from `particle`, `warnings`.
Not translated: the `pdg` setter (the constructor writes data_[9] directly and never goes through it) and every other
property / method the constructor does not reach.
Fail-closed: every statement / expression shape that is not listed in `Tr.stmts` / `Tr.ex` raises TranslateError with the
source location.
"""
import ast
from fractions import Fraction
from .core import *

SRC = "src/sparkx/Particle.py"
OUTPUTS = ["GenParticleInit"]
EXN = {"ValueError", "TypeError", "IndexError", "KeyError"}

STR, BOOL, NUM, QQ, ZZ, NAT, PART = "str", "bool", "num", "Q", "Z", "nat", "particle"
TABLE = ("dict", ("dict", ("pair", NAT)))
# pinned signatures: (parameter, annotation text, type)
SIGS = {
    "__init__": [("input_format", "Optional[str]", ("opt", STR)), ("particle_array", "Optional[np.ndarray]", ("opt", ("list", STR))),
                 ("attribute_list", "List[str]", ("opt", ("list", STR)))],
    "__initialize_from_array": [("input_format", "str", STR), ("particle_array", "np.ndarray", ("list", STR)),
                                ("attribute_list", "List[str]", ("opt", ("list", STR)))],
}
ANN_RET = {"float": NUM, "Union[int, float]": NUM, "bool": BOOL, "None": None}
ANN_PARAM = {"float": NUM, "bool": BOOL}


def cty(t):
    if isinstance(t, tuple):
        k = t[0]
        if k == "list":
            return f"(list {cty(t[1])})"
        if k == "opt":
            return f"(option {cty(t[1])})"
        if k == "pair":
            return f"({cty(t[1])} * {cty(t[1])})"
        if k == "dict":
            return f"(list (string * {cty(t[1])}))"
        if k == "kv":
            return f"(string * {cty(t[1])})"
    return {STR: "string", BOOL: "bool", NUM: "num", QQ: "Q", ZZ: "Z", NAT: "nat", PART: "particle"}[t]


def slit(s):
    if any(ord(c) > 126 or ord(c) < 32 for c in s) or '"' in s:
        raise TranslateError("string literal not accepted: " + repr(s))
    return '"' + s + '"%string'


def qlit(fr):
    n, d = fr.numerator, fr.denominator
    return f"({n} # {d})" if n >= 0 else f"(({n}) # {d})"


def zlit(n):
    return f"{n}%Z" if n >= 0 else f"({n})%Z"


class E:
    """a translated expression: Coq term, type, pure (term : T) or raising (term : result T)"""
    def __init__(self, t, ty, pure=True):
        self.t, self.ty, self.pure = t, ty, pure

    def lift(self):
        return f"(Ok {self.t})" if self.pure else self.t


def is_self_attr(n, attr=None):
    return isinstance(n, ast.Attribute) and isinstance(n.value, ast.Name) and n.value.id == "self" \
        and (attr is None or n.attr == attr)


def is_np(n, name):
    return isinstance(n, ast.Attribute) and isinstance(n.value, ast.Name) and n.value.id == "np" and n.attr == name


def terminal(stmts):
    if not stmts:
        return False
    s = stmts[-1]
    if isinstance(s, (ast.Raise, ast.Return, ast.Continue)):
        return True
    if isinstance(s, ast.If) and s.orelse:
        return terminal(s.body) and terminal(s.orelse)
    return False


def assigned(stmts):
    """names (re)bound by the statements, in order of first occurrence; 'self' for stores through self"""
    out = []

    def add(x):
        if x not in out:
            out.append(x)

    def target(t):
        if isinstance(t, ast.Name):
            add(t.id)
        elif isinstance(t, ast.Attribute) and isinstance(t.value, ast.Name) and t.value.id == "self":
            add("self")
        elif isinstance(t, ast.Subscript):
            b = t.value
            if isinstance(b, ast.Name):
                add(b.id)
            elif is_self_attr(b):
                add("self")
            else:
                raise TranslateError("assignment target not accepted: " + ast.unparse(t), t)
        else:
            raise TranslateError("assignment target not accepted: " + ast.unparse(t), t)

    def walk(s):
        if isinstance(s, ast.Assign):
            for t in s.targets:
                target(t)
        elif isinstance(s, (ast.AnnAssign, ast.AugAssign)):
            target(s.target)
        elif isinstance(s, ast.Expr) and isinstance(s.value, ast.Call) and is_self_attr(s.value.func):
            add("self")                     # a method called as a statement may update the object
        elif isinstance(s, ast.If):
            for b in s.body + s.orelse:
                walk(b)
        elif isinstance(s, ast.For):
            if s.orelse:
                raise TranslateError("for/else not accepted", s)
            for t in (s.target.elts if isinstance(s.target, ast.Tuple) else [s.target]):
                target(t)
            for b in s.body:
                walk(b)
    for s in stmts:
        walk(s)
    return out


class Cls:
    """the class: functions by role, translated on demand, emitted in dependency order"""

    def __init__(self, cls, path):
        self.path = path
        self.getters, self.setters, self.methods = {}, {}, {}
        if cls.bases or cls.keywords or cls.decorator_list:
            raise TranslateError("the class has base classes / decorators: attributes may come from elsewhere", cls, path)
        slots = False
        seen = set()
        for n in strip_doc(cls.body):
            if isinstance(n, ast.Assign) and len(n.targets) == 1 and ast.unparse(n.targets[0]) == "__slots__":
                if ast.unparse(n.value) != "['data_']":
                    raise TranslateError("__slots__ changed: the object is no longer the data_ array alone", n, path)
                slots = True
                continue
            if not isinstance(n, ast.FunctionDef):
                raise TranslateError("class-level statement not accepted: " + ast.unparse(n)[:60], n, path)
            decs = [ast.unparse(d) for d in n.decorator_list]
            if decs == ["property"]:
                role, table = "get", self.getters
            elif decs == [n.name + ".setter"]:
                role, table = "set", self.setters
            elif not decs:
                role, table = "meth", self.methods
            else:
                role, table = "other", {}          # not translatable; an error only if the constructor reaches it
            # a name is defined once; only a getter and its setter share one (any other later definition would win)
            prev = [r for r, x in seen if x == n.name]
            if prev and not (prev == ["get"] and role == "set"):
                raise TranslateError(f"`{n.name}` is defined more than once in the class", n, path)
            seen.add((role, n.name))
            table[n.name] = n
        if not slots:
            raise TranslateError("__slots__ = ['data_'] not found", cls, path)
        self.done = {}          # coq name -> (ret type, is procedure, param types)
        self.busy = set()
        self.out = []           # emitted definitions in dependency order
        self.lits = []

    def need(self, role, name, at):
        coq = {"get": "gen_get_", "set": "gen_set_", "meth": "gen_"}[role] + name.strip("_")
        if coq in self.done:
            return coq, self.done[coq]
        table = {"get": self.getters, "set": self.setters, "meth": self.methods}[role]
        if name not in table:
            raise TranslateError(f"`self.{name}` is not a {'property' if role != 'meth' else 'method'} of the class", at, self.path)
        if coq in self.busy:
            raise TranslateError(f"recursion through {name} not accepted", at, self.path)
        self.busy.add(coq)
        tr = Tr(self, role, name, table[name], coq)
        text = tr.translate()
        self.busy.discard(coq)
        self.done[coq] = (tr.ret, tr.proc, [p[2] for p in tr.params])
        self.out.append(text)
        return coq, self.done[coq]


class Tr:
    """translation of one function of the class"""

    def __init__(self, cls, role, name, f, coq):
        self.c, self.role, self.name, self.f, self.coq, self.path = cls, role, name, f, coq, cls.path
        self.n = 0
        self.litn = {}
        self.hoisted = {}
        a = f.args
        if a.vararg or a.kwarg or a.kwonlyargs or a.posonlyargs or not a.args or a.args[0].arg != "self":
            raise self.err("argument list not accepted", f)
        ps = a.args[1:]
        self.defaults = dict(zip([p.arg for p in ps][len(ps) - len(a.defaults):], a.defaults))
        if name in SIGS:
            got = [(p.arg, ast.unparse(p.annotation) if p.annotation else "") for p in ps]
            if got != [(x, y) for x, y, _ in SIGS[name]]:
                raise self.err(f"signature changed: {got}", f)
            self.params = SIGS[name]
        else:
            self.params = []
            for p in ps:
                an = ast.unparse(p.annotation) if p.annotation else ""
                if an not in ANN_PARAM:
                    raise self.err(f"annotation of parameter {p.arg} not accepted: {an!r}", f)
                self.params.append((p.arg, an, ANN_PARAM[an]))
            if self.defaults:
                raise self.err("default value not accepted here", f)
        rt = ast.unparse(f.returns) if f.returns else ""
        if rt not in ANN_RET:
            raise self.err(f"return annotation not accepted: {rt!r}", f)
        self.ret = ANN_RET[rt]
        self.proc = self.ret is None
        if role == "get" and (self.proc or self.params):
            raise self.err("a property getter takes no argument and returns a value", f)
        if role == "set" and (not self.proc or len(self.params) != 1):
            raise self.err("a property setter takes one argument and returns None", f)

    def err(self, msg, node=None):
        return TranslateError(f"{self.name}: {msg}", node, self.path)

    def fresh(self, hint="t"):
        self.n += 1
        return f"{hint}{self.n}"

    # ------------------------------------------------------------------ literals hoisted into named definitions
    def hoist(self, kind, ty, text, node):
        if id(node) in self.hoisted:
            return self.hoisted[id(node)]
        name = self.hoist_new(kind, ty, text)
        self.hoisted[id(node)] = name
        return name

    def hoist_new(self, kind, ty, text):
        k = self.litn.get(kind, 0) + 1
        self.litn[kind] = k
        name = f"gen_lit_{self.name.strip('_')}_{kind}{k}"
        self.c.lits.append(f"Definition {name} : {cty(ty)} :=\n  {text}.\n")
        return name

    # ------------------------------------------------------------------ sequencing
    def bindE(self, e, f):
        """evaluate e, then f(pure term of e) -> E"""
        if e.pure:
            return f(e.t)
        x = self.fresh()
        inner = f(x)
        return E(f"(bind {e.t} (fun {x} => {inner.lift()}))", inner.ty, False)

    def seq(self, es, build):
        """evaluate es left to right, then build(list of pure terms) -> E"""
        def go(i, acc):
            if i == len(es):
                return build(acc)
            return self.bindE(es[i], lambda t: go(i + 1, acc + [t]))
        return go(0, [])

    # ------------------------------------------------------------------ coercions
    def coerce(self, e, want, node=None):
        """E of type e.ty as an E of type want (same purity)"""
        ty = e.ty
        if want is None or ty == want:
            return e
        conv = None
        if ty == QQ and want == NUM:
            conv = "Some"
        elif ty == ZZ and want == NUM:
            conv = "num_of_Z"
        elif ty == NAT and want == ZZ:
            conv = "Z.of_nat"
        elif ty == ("list", NUM) and want == PART or ty == PART and want == ("list", NUM):
            return E(e.t, want, e.pure)
        elif isinstance(ty, tuple) and isinstance(want, tuple) and ty[0] == want[0] == "dict" and ty[1] is None:
            return E(e.t, want, e.pure)
        if conv is None:
            raise self.err(f"value of type {ty} where {want} is expected: {ast.unparse(node) if node is not None else e.t}", node)
        if e.pure:
            return E(f"({conv} {e.t})", want)
        x = self.fresh()
        return E(f"(bind {e.t} (fun {x} => Ok ({conv} {x})))", want, False)

    def exw(self, n, env, want):
        return self.coerce(self.ex(n, env, want), want, n)

    # ------------------------------------------------------------------ expressions
    def num_lit(self, node, v, want):
        fr = Fraction(v)
        if want == NUM or (isinstance(v, float) and want is None):
            return E(f"(Some {qlit(fr)})", NUM)
        if want == QQ:
            return E(qlit(fr), QQ)
        if fr.denominator != 1:
            raise self.err("non-integral literal where an int is expected", node)
        if want == NAT:
            if fr.numerator < 0:
                raise self.err("negative literal where an index is expected", node)
            return E(f"{fr.numerator}%nat", NAT)
        return E(zlit(fr.numerator), ZZ)

    def ex(self, n, env, want=None):
        if isinstance(n, ast.Constant):
            v = n.value
            if isinstance(v, bool):
                return E("true" if v else "false", BOOL)
            if isinstance(v, str):
                return E(slit(v), STR)
            if isinstance(v, (int, float)) and v == v and abs(v) != float("inf"):
                return self.num_lit(n, v, want)
            raise self.err("literal not accepted: " + repr(v), n)
        if isinstance(n, ast.Name):
            if n.id not in env:
                raise self.err(f"name `{n.id}` is not bound here", n)
            return E(*env[n.id])
        if isinstance(n, ast.Attribute):
            return self.attribute(n, env)
        if isinstance(n, ast.Subscript):
            return self.subscript(n, env)
        if isinstance(n, ast.UnaryOp):
            if isinstance(n.op, ast.Not):
                return self.bindE(self.truth(n.operand, env), lambda t: E(f"(negb {t})", BOOL))
            if isinstance(n.op, ast.USub) and isinstance(n.operand, ast.Constant) \
                    and isinstance(n.operand.value, (int, float)) and not isinstance(n.operand.value, bool):
                return self.num_lit(n, -n.operand.value, want)
            raise self.err("unary operator not accepted", n)
        if isinstance(n, ast.BinOp):
            return self.binop(n, env, want)
        if isinstance(n, ast.BoolOp):
            return self.boolop(n.values, isinstance(n.op, ast.And), env)
        if isinstance(n, ast.Compare):
            return self.compare(n, env)
        if isinstance(n, ast.IfExp):
            c = self.truth(n.test, env)
            a, b = self.ex(n.body, env, want), self.ex(n.orelse, env, want)
            if a.ty != b.ty:
                raise self.err(f"branches of different types {a.ty} / {b.ty}", n)
            if a.pure and b.pure:
                return self.bindE(c, lambda t: E(f"(if {t} then {a.t} else {b.t})", a.ty))
            return self.bindE(c, lambda t: E(f"(if {t} then {a.lift()} else {b.lift()})", a.ty, False))
        if isinstance(n, ast.List):
            return self.listlit(n, env, want)
        if isinstance(n, ast.Dict):
            return self.dictlit(n)
        if isinstance(n, ast.Call):
            return self.call(n, env, want)
        raise self.err("expression not accepted: " + ast.unparse(n)[:60], n)

    def truth(self, n, env):
        e = self.ex(n, env)
        if e.ty == BOOL:
            return e
        raise self.err(f"truth value of a {e.ty} not accepted", n)

    def self_term(self, env, node):
        if "self" not in env:
            raise self.err("self has no data_ yet", node)
        return env["self"][0]

    def attribute(self, n, env):
        if is_np(n, "nan"):
            return E("(@None Q)", NUM)
        if is_self_attr(n, "data_"):
            return E(self.self_term(env, n), ("list", NUM))
        if is_self_attr(n):
            coq, (ret, _, _) = self.c.need("get", n.attr, n)
            return E(f"({coq} o {self.self_term(env, n)})", ret, False)
        # PDGID(x).is_valid / PDGID(x).charge
        if isinstance(n.value, ast.Call) and isinstance(n.value.func, ast.Name) and n.value.func.id == "PDGID" \
                and len(n.value.args) == 1 and not n.value.keywords and n.attr in ("is_valid", "charge"):
            a = self.exw(n.value.args[0], env, NUM)
            fn, ty = ("pdgid_is_valid", BOOL) if n.attr == "is_valid" else ("pdgid_charge", NUM)
            return self.bindE(a, lambda t: E(f"({fn} o {t})", ty, False))
        raise self.err("attribute not accepted: " + ast.unparse(n), n)

    def subscript(self, n, env):
        v = self.ex(n.value, env)
        ty = v.ty
        if isinstance(ty, tuple) and ty[0] == "pair":
            if isinstance(n.slice, ast.Constant) and n.slice.value in (0, 1) and not isinstance(n.slice.value, bool):
                f = "fst" if n.slice.value == 0 else "snd"
                return self.bindE(v, lambda t: E(f"({f} {t})", ty[1]))
            raise self.err("a pair is indexed by the literals 0 / 1 only", n)
        if isinstance(ty, tuple) and ty[0] == "dict":
            if ty[1] is None:
                raise self.err("lookup in a dict of unknown value type", n)
            k = self.exw(n.slice, env, STR)
            return self.seq([v, k], lambda ts: E(f"(dict_get {ts[1]} {ts[0]})", ty[1], False))
        if isinstance(ty, tuple) and ty[0] == "list":
            i = self.exw(n.slice, env, NAT)
            return self.seq([v, i], lambda ts: E(f"(list_get {ts[0]} {ts[1]})", ty[1], False))
        raise self.err(f"subscript of a {ty} not accepted", n)

    def binop(self, n, env, want):
        op = n.op
        if isinstance(op, ast.Pow):
            if not (isinstance(n.right, ast.Constant) and n.right.value == 2 and not isinstance(n.right.value, bool)):
                raise self.err("only the exponent 2 is accepted", n)
            a = self.exw(n.left, env, NUM)
            return self.bindE(a, lambda t: E(f"(num_pow2 {t})", NUM))
        if isinstance(op, ast.Mult) and isinstance(n.right, ast.List):
            k = self.exw(n.left, env, ZZ)
            l = self.ex(n.right, env)
            return self.seq([k, l], lambda ts: E(f"(list_mul {ts[0]} {ts[1]})", l.ty))
        a, b = self.ex(n.left, env, want), self.ex(n.right, env, want)
        if isinstance(op, ast.Add) and a.ty == b.ty == STR:
            return self.seq([a, b], lambda ts: E(f"(String.append {ts[0]} {ts[1]})", STR))
        ints = (ZZ, NAT)
        if a.ty in ints and b.ty in ints and isinstance(op, (ast.Add, ast.Sub)):
            a, b = self.coerce(a, ZZ, n), self.coerce(b, ZZ, n)
            f = "Z.add" if isinstance(op, ast.Add) else "Z.sub"
            return self.seq([a, b], lambda ts: E(f"({f} {ts[0]} {ts[1]})", ZZ))
        if NUM in (a.ty, b.ty) and isinstance(op, (ast.Add, ast.Sub, ast.Mult)):
            if a.ty != NUM:
                a = self.exw(n.left, env, NUM)
            if b.ty != NUM:
                b = self.exw(n.right, env, NUM)
            f = {ast.Add: "num_add", ast.Sub: "num_sub", ast.Mult: "num_mul"}[type(op)]
            return self.seq([a, b], lambda ts: E(f"({f} {ts[0]} {ts[1]})", NUM))
        raise self.err(f"operator not accepted on {a.ty} / {b.ty}: " + ast.unparse(n)[:60], n)

    def boolop(self, values, is_and, env):
        es = [self.truth(v, env) for v in values]
        f, fE = ("andb", "andE") if is_and else ("orb", "orE")
        acc = es[-1]
        for e in reversed(es[:-1]):
            if e.pure and acc.pure:
                acc = E(f"({f} {e.t} {acc.t})", BOOL)
            else:
                acc = E(f"({fE} {e.lift()} {acc.lift()})", BOOL, False)
        return acc

    def compare(self, n, env):
        if len(n.ops) != 1:
            raise self.err("chained comparison not accepted", n)
        op, l, r = n.ops[0], n.left, n.comparators[0]
        if isinstance(op, (ast.Is, ast.IsNot)):
            if not (isinstance(r, ast.Constant) and r.value is None):
                raise self.err("`is` is accepted against None only", n)
            a = self.ex(l, env)
            if not (isinstance(a.ty, tuple) and a.ty[0] == "opt"):
                raise self.err(f"`is None` on a value of type {a.ty} (never None here)", n)
            f = "is_none" if isinstance(op, ast.Is) else "is_some"
            return self.bindE(a, lambda t: E(f"({f} {t})", BOOL))
        if isinstance(op, (ast.In, ast.NotIn)):
            a, b = self.ex(l, env), self.ex(r, env)
            if a.ty == STR and b.ty == ("list", STR):
                f = "mem_str"
            elif a.ty == STR and isinstance(b.ty, tuple) and b.ty[0] == "dict":
                f = "dict_mem"
            elif a.ty == NUM and b.ty == ("list", ZZ):
                f = "num_in"
            else:
                raise self.err(f"`in` not accepted on {a.ty} / {b.ty}", n)
            neg = isinstance(op, ast.NotIn)
            return self.seq([a, b], lambda ts: E(f"(negb ({f} {ts[0]} {ts[1]}))" if neg else f"({f} {ts[0]} {ts[1]})", BOOL))
        if isinstance(op, (ast.Eq, ast.NotEq)):
            neg = isinstance(op, ast.NotEq)
            if isinstance(r, ast.List) and not r.elts:
                a = self.ex(l, env)
                if not (isinstance(a.ty, tuple) and a.ty[0] == "opt" and a.ty[1][0] == "list"):
                    raise self.err(f"comparison with [] on a {a.ty} not accepted", n)
                return self.bindE(a, lambda t: E(f"(negb (olist_is_nil {t}))" if neg else f"(olist_is_nil {t})", BOOL))
            a, b = self.ex(l, env), self.ex(r, env)
            if a.ty == b.ty == STR:
                f = "String.eqb"
            elif a.ty == ("opt", STR) and b.ty == STR:
                f = "ostr_eqb"
            elif a.ty == b.ty == BOOL:
                f = "Bool.eqb"
            elif a.ty in (ZZ, NAT) and b.ty in (ZZ, NAT):
                a, b, f = self.coerce(a, ZZ, n), self.coerce(b, ZZ, n), "Z.eqb"
            else:
                raise self.err(f"== not accepted on {a.ty} / {b.ty}", n)
            return self.seq([a, b], lambda ts: E(f"(negb ({f} {ts[0]} {ts[1]}))" if neg else f"({f} {ts[0]} {ts[1]})", BOOL))
        names = {ast.Lt: ("Z.ltb", "num_lt"), ast.LtE: ("Z.leb", "num_le"), ast.Gt: ("Z.gtb", "num_gt"), ast.GtE: ("Z.geb", "num_ge")}
        if type(op) not in names:
            raise self.err("comparison operator not accepted", n)
        a, b = self.ex(l, env), self.ex(r, env)
        if a.ty in (ZZ, NAT) and b.ty in (ZZ, NAT):
            a, b, f = self.coerce(a, ZZ, n), self.coerce(b, ZZ, n), names[type(op)][0]
        elif NUM in (a.ty, b.ty):
            a, b, f = self.exw(l, env, NUM), self.exw(r, env, NUM), names[type(op)][1]
        else:
            raise self.err(f"comparison not accepted on {a.ty} / {b.ty}", n)
        return self.seq([a, b], lambda ts: E(f"({f} {ts[0]} {ts[1]})", BOOL))

    def listlit(self, n, env, want):
        el = n.elts
        if el and all(isinstance(e, ast.Constant) and isinstance(e.value, str) for e in el):
            return E(self.hoist("strlist", ("list", STR), "[" + "; ".join(slit(e.value) for e in el) + "]", n), ("list", STR))
        if el and all(self.is_int_lit(e) for e in el):
            vals = [int_const(e, self.path) for e in el]
            return E(self.hoist("intlist", ("list", ZZ), "[" + "; ".join(zlit(v).replace("%Z", "") for v in vals) + "]%Z", n), ("list", ZZ))
        if len(el) == 1 and is_np(el[0], "nan"):
            return E("[@None Q]", ("list", NUM))
        if len(el) == 2:
            a, b = self.ex(el[0], env, NAT), self.ex(el[1], env, NAT)
            if a.ty == b.ty == NAT:
                return self.seq([a, b], lambda ts: E(f"({ts[0]}, {ts[1]})", ("pair", NAT)))
        if not el and isinstance(want, tuple) and want[0] == "list":
            return E("[]", want)
        raise self.err("list literal not accepted: " + ast.unparse(n)[:60], n)

    @staticmethod
    def is_int_lit(e):
        if isinstance(e, ast.UnaryOp) and isinstance(e.op, ast.USub):
            e = e.operand
        return isinstance(e, ast.Constant) and isinstance(e.value, int) and not isinstance(e.value, bool)

    def dictlit(self, n):
        if not n.keys:
            return E("[]", ("dict", None))
        try:
            d = ast.literal_eval(n)
        except Exception:
            raise self.err("a non-empty dict must be a literal", n)
        rows = []
        for fmt, inner in d.items():
            if not (isinstance(fmt, str) and isinstance(inner, dict)):
                raise self.err("dict literal shape not accepted (str -> dict)", n)
            ents = []
            for a, v in inner.items():
                if not (isinstance(a, str) and isinstance(v, list) and len(v) == 2
                        and all(isinstance(x, int) and not isinstance(x, bool) and x >= 0 for x in v)):
                    raise self.err("dict literal shape not accepted (str -> [index, index])", n)
                ents.append(f"({slit(a)}, ({v[0]}, {v[1]}))")
            rows.append(f"({slit(fmt)}, [{'; '.join(ents)}])")
        text = "[" + ";\n   ".join(rows) + "]%nat"
        return E(self.hoist("dict", TABLE, text, n), TABLE)

    def call(self, n, env, want):
        f = n.func
        kw = {k.arg: k.value for k in n.keywords}
        if isinstance(f, ast.Name):
            name = f.id
            if name == "len" and len(n.args) == 1 and not kw:
                a = self.ex(n.args[0], env)
                if isinstance(a.ty, tuple) and a.ty[0] in ("list", "dict"):
                    return self.bindE(a, lambda t: E(f"(zlen {t})", ZZ))
                raise self.err(f"len of a {a.ty} not accepted", n)
            if name == "float" and len(n.args) == 1 and not kw:
                a = self.exw(n.args[0], env, STR)
                return self.bindE(a, lambda t: E(f"(py_float o {t})", QQ, False))
            if name == "int" and len(n.args) == 1 and not kw:
                a = self.ex(n.args[0], env)
                if a.ty == STR:
                    return self.bindE(a, lambda t: E(f"(py_intstr o {t})", QQ, False))
                if a.ty == NUM:
                    return self.bindE(a, lambda t: E(f"(py_int {t})", NUM, False))
                raise self.err(f"int() of a {a.ty} not accepted", n)
            if name == "bool" and len(n.args) == 1 and not kw:
                a = self.exw(n.args[0], env, NUM)
                return self.bindE(a, lambda t: E(f"(py_bool {t})", BOOL))
            if name == "abs" and len(n.args) == 1 and not kw:
                a = self.exw(n.args[0], env, NUM)
                return self.bindE(a, lambda t: E(f"(num_abs {t})", NUM))
            if name == "list" and len(n.args) == 1 and not kw:
                a = self.ex(n.args[0], env)
                if isinstance(a.ty, tuple) and a.ty[0] == "list":
                    return a
                if isinstance(a.ty, tuple) and a.ty[0] == "opt" and a.ty[1][0] == "list":
                    return self.bindE(a, lambda t: E(f"(need_list {t})", a.ty[1], False))
                raise self.err(f"list() of a {a.ty} not accepted", n)
            raise self.err(f"call of `{name}` not accepted", n)
        if isinstance(f, ast.Attribute):
            if isinstance(f.value, ast.Name) and f.value.id == "np":
                if f.attr in ("abs", "isnan", "sqrt") and len(n.args) == 1 and not kw:
                    a = self.exw(n.args[0], env, NUM)
                    fn, ty = {"abs": ("num_abs", NUM), "isnan": ("is_nan", BOOL), "sqrt": ("np_sqrt o", NUM)}[f.attr]
                    return self.bindE(a, lambda t: E(f"({fn} {t})", ty))
                if f.attr == "array" and len(n.args) == 1 and list(kw) == ["dtype"] and ast.unparse(kw["dtype"]) == "float":
                    a = self.exw(n.args[0], env, ("list", NUM))
                    return a
                raise self.err("numpy call not accepted: " + ast.unparse(n)[:60], n)
            if is_self_attr(f) and not n.args and not kw:
                coq, (ret, proc, ps) = self.c.need("meth", self.demangle(f.attr), n)
                if proc or ps:
                    raise self.err("only argument-free methods that return a value are accepted inside an expression", n)
                return E(f"({coq} o {self.self_term(env, n)})", ret, False)
            if f.attr == "index" and len(n.args) == 1 and not kw:
                l, x = self.exw(f.value, env, ("list", STR)), self.exw(n.args[0], env, STR)
                return self.seq([l, x], lambda ts: E(f"(list_index {ts[1]} {ts[0]})", NAT, False))
            if f.attr == "items" and not n.args and not kw:
                d = self.ex(f.value, env)
                if isinstance(d.ty, tuple) and d.ty[0] == "dict" and d.ty[1] is not None:
                    return E(d.t, ("list", ("kv", d.ty[1])), d.pure)
                raise self.err(f".items() of a {d.ty} not accepted", n)
        raise self.err("call not accepted: " + ast.unparse(n)[:60], n)

    @staticmethod
    def demangle(name):
        return name

    # ------------------------------------------------------------------ messages (warnings.warn / raise Cls(msg))
    def msg_effects(self, n, env):
        """the raising sub-expressions of a message, in evaluation order"""
        if isinstance(n, ast.Constant) and isinstance(n.value, str):
            return []
        if isinstance(n, ast.BinOp) and isinstance(n.op, ast.Add):
            return self.msg_effects(n.left, env) + self.msg_effects(n.right, env)
        if isinstance(n, ast.Call) and isinstance(n.func, ast.Name) and n.func.id == "str" and len(n.args) == 1 and not n.keywords:
            e = self.ex(n.args[0], env)
            return [] if e.pure else [e]
        if isinstance(n, ast.JoinedStr):
            out = []
            for v in n.values:
                if isinstance(v, ast.Constant):
                    continue
                if isinstance(v, ast.FormattedValue) and v.conversion == -1 and v.format_spec is None:
                    e = self.ex(v.value, env)
                    if not e.pure:
                        out.append(e)
                    continue
                raise self.err("f-string part not accepted", n)
            return out
        raise self.err("message expression not accepted: " + ast.unparse(n)[:60], n)

    def after_effects(self, effs, rest):
        for e in reversed(effs):
            rest = f"(bind {e.t} (fun _ => {rest}))"
        return rest

    # ------------------------------------------------------------------ statements (continuation-passing)
    def tuple_of(self, names, env):
        ts = [env[x][0] for x in names]
        return "tt" if not ts else ts[0] if len(ts) == 1 else "(" + ", ".join(ts) + ")"

    @staticmethod
    def pat_of(names, env):
        ts = [env[x][0] for x in names]
        return "_" if not ts else ts[0] if len(ts) == 1 else "'(" + ", ".join(ts) + ")"

    def bind_name(self, env, name, ty):
        e = dict(env)
        e[name] = ("self" if name == "self" else "v_" + name, ty)
        return e

    def stmts(self, ss, env, k, ctx):
        """term for the statements ss followed by the continuation k(env)"""
        if not ss:
            return k(env)
        s, rest = ss[0], ss[1:]
        nxt = lambda env2: self.stmts(rest, env2, k, ctx)
        if isinstance(s, ast.Expr) and isinstance(s.value, ast.Constant) and isinstance(s.value.value, str):
            return nxt(env)                                   # docstring
        if isinstance(s, ast.Expr) and isinstance(s.value, ast.Call):
            c = s.value
            if ast.unparse(c.func) == "warnings.warn" and len(c.args) == 1 and not c.keywords:
                return self.after_effects(self.msg_effects(c.args[0], env), nxt(env))
            if is_self_attr(c.func) and not c.keywords:        # a method that updates the object
                coq, (ret, proc, ps) = self.c.need("meth", self.demangle(c.func.attr), s)
                if not proc or len(ps) != len(c.args):
                    raise self.err("method call as a statement: not a procedure / wrong number of arguments", s)
                args = [self.exw(a, env, t) for a, t in zip(c.args, ps)]
                st = self.self_term(env, s)
                e = self.seq(args, lambda ts: E(f"({coq} o {st} {' '.join(ts)})", PART, False))
                return f"(bind {e.t} (fun self => {nxt(self.bind_name(env, 'self', PART))}))"
            raise self.err("expression statement not accepted: " + ast.unparse(s)[:60], s)
        if isinstance(s, ast.Raise):
            if rest:
                raise self.err("statements after raise", s)
            e = s.exc
            if not (isinstance(e, ast.Call) and isinstance(e.func, ast.Name) and e.func.id in EXN and len(e.args) == 1 and not e.keywords) \
                    or s.cause is not None:
                raise self.err("raise form not accepted: " + ast.unparse(s)[:60], s)
            return self.after_effects(self.msg_effects(e.args[0], env), f"(Err {e.func.id})")
        if isinstance(s, ast.Return):
            if rest:
                raise self.err("statements after return", s)
            return ctx["ret"](s, env)
        if isinstance(s, ast.Continue):
            if rest or ctx.get("cont") is None:
                raise self.err("continue not accepted here", s)
            return ctx["cont"](env)
        if isinstance(s, (ast.Assign, ast.AnnAssign)):
            if isinstance(s, ast.Assign):
                if len(s.targets) != 1:
                    raise self.err("multiple assignment targets", s)
                tg, val = s.targets[0], s.value
            else:
                tg, val = s.target, s.value
                if val is None:
                    raise self.err("annotation without value", s)
            return self.assign(tg, val, env, nxt, s)
        if isinstance(s, ast.AugAssign):
            if isinstance(s.target, ast.Name) and isinstance(s.op, ast.Mult):
                val = ast.copy_location(ast.BinOp(left=ast.Name(id=s.target.id, ctx=ast.Load()), op=ast.Mult(), right=s.value), s)
                ast.fix_missing_locations(val)
                return self.assign(s.target, val, env, nxt, s)
            raise self.err("augmented assignment not accepted", s)
        if isinstance(s, ast.If):
            return self.if_(s, rest, env, k, ctx)
        if isinstance(s, ast.For):
            return self.for_(s, env, nxt, ctx)
        raise self.err("statement not accepted: " + ast.unparse(s)[:60], s)

    def assign(self, tg, val, env, nxt, s):
        if isinstance(tg, ast.Name):
            old = env.get(tg.id)
            want = old[1] if old and old[1] in (NUM, BOOL, STR) else None
            e = self.ex(val, env, want)
            if want is not None:
                e = self.coerce(e, want, val)
            env2 = self.bind_name(env, tg.id, e.ty)
            v = env2[tg.id][0]
            if e.pure:
                return f"(let {v} := {e.t} in {nxt(env2)})"
            return f"(bind {e.t} (fun {v} => {nxt(env2)}))"
        if is_self_attr(tg, "data_"):
            e = self.exw(val, env, ("list", NUM))
            env2 = self.bind_name(env, "self", PART)
            if e.pure:
                return f"(let self := {e.t} in {nxt(env2)})"
            return f"(bind {e.t} (fun self => {nxt(env2)}))"
        if is_self_attr(tg):
            coq, (_, _, ps) = self.c.need("set", tg.attr, s)
            e = self.exw(val, env, ps[0])
            st = self.self_term(env, s)
            r = self.bindE(e, lambda t: E(f"({coq} o {st} {t})", PART, False))
            return f"(bind {r.t} (fun self => {nxt(self.bind_name(env, 'self', PART))}))"
        if isinstance(tg, ast.Subscript) and is_self_attr(tg.value, "data_"):
            e = self.exw(val, env, NUM)                         # right-hand side first, then the index, then the store
            i = self.exw(tg.slice, env, NAT)
            st = self.self_term(env, s)
            r = self.seq([e, i], lambda ts: E(f"(arr_set {st} {ts[1]} {ts[0]})", PART, False))
            return f"(bind {r.t} (fun self => {nxt(self.bind_name(env, 'self', PART))}))"
        if isinstance(tg, ast.Subscript) and isinstance(tg.value, ast.Name):
            d = tg.value.id
            if d not in env or not (isinstance(env[d][1], tuple) and env[d][1][0] == "dict"):
                raise self.err(f"`{d}` is not a dict here", s)
            dty = env[d][1]
            e = self.ex(val, env, dty[1])
            if dty[1] is None:
                dty = ("dict", e.ty)
            e = self.coerce(e, dty[1], val)
            kx = self.exw(tg.slice, env, STR)
            env2 = self.bind_name(env, d, dty)
            r = self.seq([e, kx], lambda ts: E(f"(dict_set {ts[1]} {ts[0]} {env[d][0]})", dty))
            if r.pure:
                return f"(let {env2[d][0]} := {r.t} in {nxt(env2)})"
            return f"(bind {r.t} (fun {env2[d][0]} => {nxt(env2)}))"
        raise self.err("assignment target not accepted: " + ast.unparse(tg), s)

    def narrowing(self, test, env):
        """`(A is not None) and (B is not None)` on option-typed names -> [A, B], else None"""
        vals = test.values if isinstance(test, ast.BoolOp) and isinstance(test.op, ast.And) else [test]
        names = []
        for v in vals:
            if isinstance(v, ast.Compare) and len(v.ops) == 1 and isinstance(v.ops[0], ast.IsNot) \
                    and isinstance(v.comparators[0], ast.Constant) and v.comparators[0].value is None \
                    and isinstance(v.left, ast.Name) and v.left.id in env \
                    and isinstance(env[v.left.id][1], tuple) and env[v.left.id][1][0] == "opt":
                names.append(v.left.id)
            else:
                return None
        return names

    def if_(self, s, rest, env, k, ctx):
        tb, eb = terminal(s.body), terminal(s.orelse)
        cont = lambda env2: self.stmts(rest, env2, k, ctx)
        nar = self.narrowing(s.test, env)
        if nar and not s.orelse:
            # match A, B with Some a, Some b => body | _ => (skip) end; both paths continue with the rest
            if tb:
                raise self.err("narrowing `if` with a terminal body not accepted", s)
            names = [x for x in assigned(s.body) if x in env]
            if any(x in nar for x in names):
                raise self.err("a narrowed name is assigned in the body", s)
            inner_env = dict(env)
            for x in nar:
                inner_env[x] = (env[x][0], env[x][1][1])
            def kj(e2):
                for x in names:
                    if e2[x][1] != env[x][1]:
                        raise self.err(f"`{x}` changes its type under the `if`", s)
                return f"(Ok {self.tuple_of(names, e2)})"
            body = self.stmts(s.body, inner_env, kj, ctx)
            skip = f"(Ok {self.tuple_of(names, env)})"
            pats = ", ".join(f"Some {env[x][0]}" for x in nar)
            scrut = ", ".join(env[x][0] for x in nar)
            wild = ", ".join("_" for _ in nar)
            m = f"(match {scrut} with {pats} => {body} | {wild} => {skip} end)"
            return f"(bind {m} (fun {self.pat_of(names, env)} => {cont(dict(env))}))"
        c = self.truth(s.test, env)
        if tb or eb:
            # the statements after the `if` continue in the branch that falls through
            bt = self.stmts(s.body, env, cont if not tb else self.unreachable(s), ctx)
            be = self.stmts(s.orelse, env, cont if not eb else self.unreachable(s), ctx)
            r = self.bindE(c, lambda t: E(f"(if {t} then {bt} else {be})", None, False))
            return r.t
        # both branches fall through: join the variables they assign
        names = [x for x in assigned(s.body + s.orelse)]
        both = [x for x in names if x in assigned(s.body) and x in assigned(s.orelse)]
        names = [x for x in names if x in env or x in both]
        tys = {}
        def kj_for(store):
            def kj(e2):
                for x in names:
                    store.setdefault(x, e2[x][1])
                    if store[x] != e2[x][1]:
                        raise self.err(f"`{x}` has different types on the two paths ({store[x]} / {e2[x][1]})", s)
                return f"(Ok {self.tuple_of(names, e2)})"
            return kj
        bt = self.stmts(s.body, env, kj_for(tys), ctx)
        be = self.stmts(s.orelse, env, kj_for(tys), ctx)
        env_after = dict(env)
        for x in names:
            env_after = self.bind_name(env_after, x, tys[x])
        # names assigned on one path only and unknown before are not visible afterwards
        for x in assigned(s.body + s.orelse):
            if x not in names and x in env_after:
                del env_after[x]
        r = self.bindE(c, lambda t: E(f"(if {t} then {bt} else {be})", None, False))
        return f"(bind {r.t} (fun {self.pat_of(names, env_after)} => {cont(env_after)}))"

    def unreachable(self, s):
        def k(_):
            raise self.err("internal: continuation of a terminal branch", s)
        return k

    def for_(self, s, env, nxt, ctx):
        if s.orelse:
            raise self.err("for/else not accepted", s)
        it = self.ex(s.iter, env)
        if isinstance(it.ty, tuple) and it.ty[0] == "opt" and it.ty[1][0] == "list":
            it = self.bindE(it, lambda t: E(f"(need_list {t})", it.ty[1], False))
        if not (isinstance(it.ty, tuple) and it.ty[0] == "list"):
            raise self.err(f"iteration over a {it.ty} not accepted", s)
        el = it.ty[1]
        benv = dict(env)
        if isinstance(s.target, ast.Name):
            benv = self.bind_name(benv, s.target.id, el)
            pat, targets = benv[s.target.id][0], [s.target.id]
        elif isinstance(s.target, ast.Tuple) and len(s.target.elts) == 2 and all(isinstance(x, ast.Name) for x in s.target.elts) \
                and isinstance(el, tuple) and el[0] == "kv":
            a, b = s.target.elts[0].id, s.target.elts[1].id
            benv = self.bind_name(self.bind_name(benv, a, STR), b, el[1])
            pat, targets = f"'({benv[a][0]}, {benv[b][0]})", [a, b]
        else:
            raise self.err("loop target not accepted", s)
        asg = assigned(s.body)
        carried = [x for x in asg if x in env and x not in targets]
        if any(x in env for x in targets):
            raise self.err("the loop target shadows an existing name", s)
        for b in s.body:
            if any(isinstance(x, ast.For) for x in ast.walk(b)):
                raise self.err("nested loop not accepted", s)
        refined = {}
        def kj(e2):
            for x in carried:
                a, b = env[x][1], e2[x][1]
                if a == ("dict", None) and isinstance(b, tuple) and b[0] == "dict":
                    if refined.setdefault(x, b) != b:                # first store into an empty dict fixes its type
                        raise self.err(f"loop-carried `{x}` gets different types", s)
                elif a != b:
                    raise self.err(f"loop-carried `{x}` changes its type ({a} -> {b})", s)
            return f"(Ok {self.tuple_of(carried, e2)})"
        bctx = dict(ctx)
        bctx["cont"] = kj
        body = self.stmts(s.body, benv, kj, bctx)
        cpat = self.pat_of(carried, env)
        fun = f"(fun {cpat if cpat != '_' else '(_ : unit)'} {pat} => {body})"
        r = self.bindE(it, lambda t: E(f"(loopE {fun} {t} {self.tuple_of(carried, env)})", None, False))
        env_after = dict(env)                                  # targets and body-local names are dropped
        for x, ty in refined.items():
            env_after[x] = (env[x][0], ty)
        return f"(bind {r.t} (fun {cpat} => {nxt(env_after)}))"

    # ------------------------------------------------------------------ one function
    def translate(self):
        env = {}
        binders = ["(o : oracles)"]
        if not (self.role == "meth" and self.name == "__init__"):
            env["self"] = ("self", PART)
            binders.append("(self : particle)")
        for p, _, ty in self.params:
            env[p] = ("v_" + p, ty)
            binders.append(f"(v_{p} : {cty(ty)})")
        if self.proc:
            def ret(s, e2):
                if s.value is not None:
                    raise self.err("a procedure returns nothing", s)
                return f"(Ok {self.self_term(e2, s)})"
            end = lambda e2: f"(Ok {self.self_term(e2, self.f)})"
            rty = PART
        else:
            def ret(s, e2):
                if s.value is None:
                    raise self.err("return without a value", s)
                return self.exw(s.value, e2, self.ret).lift()
            def end(e2):
                raise self.err("the function can end without a return", self.f)
            rty = self.ret
        body = self.stmts(strip_doc(self.f.body), env, end, {"ret": ret, "cont": None})
        text = f"Definition {self.coq} {' '.join(binders)} : result {cty(rty)} :=\n  {body}.\n"
        if self.defaults:
            for p, _, ty in self.params:
                if p in self.defaults:
                    d = self.defaults[p]
                    if isinstance(d, ast.Constant) and d.value is None and ty[0] == "opt":
                        v = "None"
                    elif isinstance(d, ast.List) and not d.elts and ty[0] == "opt":
                        v = "(Some [])"
                    else:
                        raise self.err("default value not accepted: " + ast.unparse(d), d)
                    text += f"Definition gen_default_{self.name.strip('_')}_{p} : {cty(ty)} := {v}.\n"
        return text


IMPORTS = ["import numpy as np", "from particle import PDGID", "import warnings"]


def generate():
    tree, path = parse(SRC)
    have = [ast.unparse(n) for n in tree.body if isinstance(n, (ast.Import, ast.ImportFrom))]
    for imp in IMPORTS:
        if imp not in have:
            raise TranslateError(f"module-level `{imp}` not found: np / PDGID / warnings may mean something else")
    for n in tree.body:
        bound = []
        if isinstance(n, (ast.FunctionDef, ast.ClassDef)):
            bound = [n.name]
        elif isinstance(n, (ast.Assign, ast.AnnAssign, ast.AugAssign)):
            tgs = n.targets if isinstance(n, ast.Assign) else [n.target]
            bound = [x.id for t in tgs for x in ast.walk(t) if isinstance(x, ast.Name)]
        elif isinstance(n, (ast.Import, ast.ImportFrom)):
            bound = [(a.asname or a.name) for a in n.names if ast.unparse(n) not in IMPORTS]
        elif not (isinstance(n, ast.Expr) and isinstance(n.value, ast.Constant)):
            raise TranslateError("module-level statement not accepted: " + ast.unparse(n)[:60], n, path)
        if any(x in ("np", "PDGID", "warnings") for x in bound):
            raise TranslateError("np / PDGID / warnings rebound at module level", n, path)
    cls = find_class(tree, "Particle")
    c = Cls(cls, path)
    c.need("meth", "__initialize_from_array", cls)
    c.need("meth", "__init__", cls)
    out = [HEADER,
           "From Coq Require Import List String ZArith QArith Qabs Bool Arith.\n"
           "From SX Require Import Lib.Strs Model.Oscar Model.ParticleInitRt.\n"
           "Import ListNotations.\n\n"]
    out += c.lits
    out.append("\n")
    out += [t + "\n" for t in c.out]
    return "".join(out)


def main(outdir):
    return write_if_changed(outdir + "/GenParticleInit.v", generate())

"""Gen/GenCentrality.v from src/sparkx/CentralityClasses.py (ratexpr extractor).

Generated: the rank boundary `int(number_events * edge / 100.0)`, the two list entries that are stored per class
(`dNchdetaMax_`, `dNchdetaMin_`: which rank of the descending record is read, with which guard), the minimum
sample size.  The surrounding control flow (edge cleaning, the loop over edges, the lookup) is the hand model
coq/Model/Centrality.v; the statements around the extracted ones are compared textually (fail-closed)."""
import ast
from .core import *
from . import ratexpr

SRC = "src/sparkx/CentralityClasses.py"
OUTPUTS = ["GenCentrality"]


def _rank(node, idx, path):
    """`int(number_events * self.centrality_bins_[idx] / 100.0)` -> Coq term of type Z"""
    if not (isinstance(node, ast.Call) and isinstance(node.func, ast.Name) and node.func.id == "int"
            and len(node.args) == 1 and not node.keywords):
        raise TranslateError("rank boundary must be int(<expr>)", node, path)
    env = {"number_events": "(inject_Z number_events)", f"self.centrality_bins_[{idx}]": "edge"}
    return "(Qtrunc " + ratexpr.expr(node.args[0], env, path, ratexpr.QOPS) + ")"


def _entry(node, path, allow_inf):
    """global_event_record[<int expr>]  |  <entry> if <cmp> else inf   ->  Coq term : result (ext T) / result T"""
    env = {"MinRecord": "MinRecord", "MaxRecord": "MaxRecord"}
    if isinstance(node, ast.IfExp):
        if not allow_inf:
            raise TranslateError("conditional entry not accepted here", node, path)
        c = ratexpr.compare(node.test, env, path)
        a = _entry(node.body, path, allow_inf)
        if ratexpr.is_inf(node.orelse):
            b = "(Ok Inf)"
        else:
            b = _entry(node.orelse, path, allow_inf)
        return f"(if {c} then {a} else {b})"
    if isinstance(node, ast.Subscript) and ast.unparse(node.value) == "global_event_record":
        i = ratexpr.expr(node.slice, env, path, ratexpr.ZOPS)
        return f"(rmap Val (pyget record {i}))" if allow_inf else f"(pyget record {i})"
    if allow_inf and ratexpr.is_inf(node):
        return "(Ok Inf)"
    raise TranslateError("entry not accepted: " + ast.unparse(node)[:80], node, path)


def _append(st, target, path):
    if not (isinstance(st, ast.Expr) and isinstance(st.value, ast.Call)
            and ast.unparse(st.value.func) == f"self.{target}.append" and len(st.value.args) == 1
            and not st.value.keywords):
        raise TranslateError(f"expected `self.{target}.append(<entry>)`", st, path)
    return st.value.args[0]


def generate():
    tree, path = parse(SRC)
    cls = find_class(tree, "CentralityClasses")
    f = find_func(cls, "__create_centrality_classes")
    body = strip_doc(f.body)
    # ---- minimum number of events ------------------------------------------
    if not (ast.unparse(body[0]) == "number_events = len(self.events_multiplicity_)"
            and isinstance(body[1], ast.If) and len(body[1].body) == 1 and isinstance(body[1].body[0], ast.Raise)
            and not body[1].orelse):
        raise TranslateError("expected `number_events = len(...)` followed by the size check", body[0], path)
    t = body[1].test
    if not (isinstance(t, ast.Compare) and len(t.ops) == 1 and isinstance(t.ops[0], ast.Lt)
            and ast.unparse(t.left) == "number_events"):
        raise TranslateError("expected `if number_events < <const>: raise`", body[1], path)
    min_events = int_const(t.comparators[0], path)
    exc = ast.unparse(body[1].body[0].exc.func) if isinstance(body[1].body[0].exc, ast.Call) else "?"
    if exc != "ValueError":
        raise TranslateError("size check must raise ValueError", body[1], path)
    # ---- the boundary loop: the statements after `global_event_record = sorted(..., reverse=True)` -------------
    pos = [i for i, st in enumerate(body)
           if ast.unparse(st) == "global_event_record = sorted(self.events_multiplicity_, reverse=True)"]
    if len(pos) != 1:
        raise TranslateError("expected exactly one `global_event_record = sorted(self.events_multiplicity_, reverse=True)`", f, path)
    tail = body[pos[0] + 1:]
    if len(tail) != 2:
        raise TranslateError("expected `MinRecord = ...` and one for-loop after the sort", f, path)
    first, loop = tail
    if not (isinstance(first, ast.Assign) and ast.unparse(first.targets[0]) == "MinRecord"):
        raise TranslateError("expected `MinRecord = int(...)`", first, path)
    rank0 = _rank(first.value, "0", path)
    if not (isinstance(loop, ast.For) and ast.unparse(loop.target) == "i"
            and ast.unparse(loop.iter) == "range(1, len(self.centrality_bins_))" and not loop.orelse):
        raise TranslateError("expected `for i in range(1, len(self.centrality_bins_))`", loop, path)
    lb = loop.body
    if len(lb) != 4:
        raise TranslateError("boundary loop must have four statements", loop, path)
    if not (isinstance(lb[0], ast.Assign) and ast.unparse(lb[0].targets[0]) == "MaxRecord"):
        raise TranslateError("expected `MaxRecord = int(...)`", lb[0], path)
    ranki = _rank(lb[0].value, "i", path)
    if rank0 != ranki:
        raise TranslateError("first boundary and loop boundary use different formulas", lb[0], path)
    mx = _entry(_append(lb[1], "dNchdetaMax_", path), path, allow_inf=False)
    mn = _entry(_append(lb[2], "dNchdetaMin_", path), path, allow_inf=True)
    if ast.unparse(lb[3]) != "MinRecord = MaxRecord":
        raise TranslateError("expected `MinRecord = MaxRecord`", lb[3], path)
    out = [HEADER, "From Coq Require Import List ZArith QArith Qround.\nFrom SX Require Import Lib.Py.\n\n",
           f"Definition gen_min_events : Z := {min_events}%Z.\n\n",
           "(* " + ast.unparse(lb[0]) + " *)\n",
           f"Definition gen_rank (number_events : Z) (edge : Q) : Z :=\n  {ranki}.\n\n",
           "Section Entries.\n  Variable T : Type.\n",
           "  (* " + ast.unparse(lb[1]) + " *)\n",
           f"  Definition gen_max_entry (record : list T) (MinRecord MaxRecord : Z) : result T :=\n    {mx}.\n",
           "  (* " + ast.unparse(lb[2]) + " *)\n",
           f"  Definition gen_min_entry (record : list T) (MinRecord MaxRecord : Z) : result (ext T) :=\n    {mn}.\n",
           "End Entries.\n"]
    return "".join(out)


def main(outdir):
    return write_if_changed(outdir + "/GenCentrality.v", generate())

"""Gen/GenFilters.v from src/sparkx/Filter.py: every module-level function (all filters and the limit
validation helper) through the `filters` extractor (pyfrag)."""
import ast
from .core import *
from . import pyfrag

SRC = "src/sparkx/Filter.py"
PARTICLE = "src/sparkx/Particle.py"
OUTPUTS = ["GenFilters"]

PRELUDE = """From Coq Require Import List ZArith QArith Bool String.
From SX Require Import Model.PyRt.
Import ListNotations.
Local Open Scope bool_scope.
Local Open Scope Z_scope.

"""


def filter_functions():
    """(tree path, [FunctionDef], {name: FuncSig}, props, meths)"""
    tree, path = parse(SRC)
    ptree, ppath = parse(PARTICLE)
    props, meths = pyfrag.particle_accessors(ptree, ppath)
    fdefs = []
    for n in tree.body:
        if isinstance(n, ast.FunctionDef):
            fdefs.append(n)
        elif isinstance(n, (ast.Import, ast.ImportFrom)):
            continue
        elif isinstance(n, ast.Expr) and isinstance(n.value, ast.Constant):
            continue
        else:
            raise TranslateError("module-level statement not accepted: " + type(n).__name__, n, path)
    sigs = {}
    for f in fdefs:
        if f.decorator_list:
            raise TranslateError("decorated function", f, path)
        sigs[f.name] = pyfrag.signature(f, path)
    return path, fdefs, sigs, props, meths


def generate():
    path, fdefs, sigs, props, meths = filter_functions()
    out = [HEADER, PRELUDE]
    seen = {}
    for f in fdefs:
        # a callee must be defined before its caller (no recursion in the fragment)
        known = {k: v for k, v in sigs.items() if k in seen}
        out.append(f"(* {SRC}:{f.lineno} *)\n")
        out.append(pyfrag.translate_function(f, sigs[f.name], path, known, props, meths))
        out.append("\n")
        seen[f.name] = True
    names = [sigs[f.name].coqname for f in fdefs]
    out.append("Definition gen_filter_names : list string :=\n  [" +
               "; ".join(pyfrag.slit(f.name) for f in fdefs) + "].\n")
    return "".join(out)


def main(outdir):
    return write_if_changed(outdir + "/GenFilters.v", generate())

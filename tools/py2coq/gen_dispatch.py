"""Gen/GenDispatch.v (`tables` extractor):
  * the three `__apply_kwargs_filters` chains of OscarLoader / JetscapeLoader / ParticleObjectLoader, translated as
    written by the same fragment translator as Filter.py (pyfrag);
  * the filter-method wrappers of BaseStorer and the overrides of Oscar / Jetscape / ParticleObjectStorer as tables
    name -> (Filter function, argument passing) resp. name -> NotImplementedError.
"""
import ast
from .core import *
from . import pyfrag
from .gen_filters import filter_functions

OUTPUTS = ["GenDispatch"]
LOADERS = [("Oscar", "src/sparkx/loader/OscarLoader.py", "OscarLoader"),
           ("Jetscape", "src/sparkx/loader/JetscapeLoader.py", "JetscapeLoader"),
           ("PObj", "src/sparkx/loader/ParticleObjectLoader.py", "ParticleObjectLoader")]
STORERS = [("Oscar", "src/sparkx/Oscar.py", "Oscar"), ("Jetscape", "src/sparkx/Jetscape.py", "Jetscape"),
           ("PObj", "src/sparkx/ParticleObjectStorer.py", "ParticleObjectStorer")]
BASE = ("src/sparkx/BaseStorer.py", "BaseStorer")

PRELUDE = """From Coq Require Import List ZArith QArith Bool String.
From SX Require Import Model.PyRt Gen.GenFilters.
Import ListNotations.
Local Open Scope bool_scope.
Local Open Scope Z_scope.
Local Open Scope string_scope.

(* a filter method of a storer class: which Filter function it applies to the particle list and how its own
   arguments are passed on; or that the class refuses it *)
"""


def star_import_of_filter(tree, path):
    for n in tree.body:
        if isinstance(n, ast.ImportFrom) and n.module == "sparkx.Filter" and [a.name for a in n.names] == ["*"]:
            return True
    raise TranslateError("`from sparkx.Filter import *` not found (filter names would resolve differently)", None, path)


def classify_method(f, fsigs, path):
    """-> ('wrapper', filter name, [positions of the method's parameters in the call]) | ('refused',) | None"""
    body = strip_doc(f.body)
    params = [a.arg for a in f.args.args[1:]]
    calls_filter = any(isinstance(n, ast.Call) and isinstance(n.func, ast.Name) and n.func.id in fsigs
                       for st in body for n in ast.walk(st))
    if len(body) == 1 and isinstance(body[0], ast.Raise) and isinstance(body[0].exc, ast.Call) \
            and ast.unparse(body[0].exc.func) == "NotImplementedError" and not f.decorator_list:
        return ("refused",)
    if not calls_filter:
        return None      # not a filter method
    if f.decorator_list or f.args.vararg or f.args.kwarg or f.args.kwonlyargs or f.args.defaults:
        raise TranslateError(f"filter method {f.name}: signature not accepted", f, path)
    ok = (len(body) == 3
          and isinstance(body[0], ast.Assign) and len(body[0].targets) == 1
          and ast.unparse(body[0].targets[0]) == "self.particle_list_"
          and isinstance(body[0].value, ast.Call) and isinstance(body[0].value.func, ast.Name)
          and not body[0].value.keywords and body[0].value.args
          and ast.unparse(body[0].value.args[0]) == "self.particle_list_"
          and ast.unparse(body[1]) == "self._update_num_output_per_event_after_filter()"
          and isinstance(body[2], ast.Return) and ast.unparse(body[2].value) == "self")
    if not ok:
        raise TranslateError(f"filter method {f.name} does not have the wrapper form "
                             "`self.particle_list_ = f(self.particle_list_, args); self._update...(); return self`", f, path)
    fn = body[0].value.func.id
    if fn not in fsigs:
        raise TranslateError(f"{f.name} calls {fn}, not a function of Filter.py", f, path)
    pos = []
    for a in body[0].value.args[1:]:
        if not (isinstance(a, ast.Name) and a.id in params):
            raise TranslateError(f"{f.name}: argument passing not accepted: {ast.unparse(a)}", f, path)
        pos.append(params.index(a.id))
    if len(pos) + 1 != len(fsigs[fn].params):
        raise TranslateError(f"{f.name}: wrong number of arguments for {fn}", f, path)
    return ("wrapper", fn, pos, len(params))


def method_table(relpath, clsname, fsigs):
    tree, path = parse(relpath)
    star_import_of_filter(tree, path)
    cls = find_class(tree, clsname)
    out = []
    for f in cls.body:
        if isinstance(f, ast.FunctionDef):
            c = classify_method(f, fsigs, path)
            if c:
                out.append((f.name, c, f.lineno))
    return out


def emit_methods(name, table, fsigs, parent=None):
    lines = [f"Definition gen_method_{name} (name : string) (args : list pyv) (pl : plist) : result plist :=\n"]
    for mname, c, lineno in table:
        if c[0] == "refused":
            lines.append(f"  if String.eqb name {pyfrag.slit(mname)[:-7]} then Err NotImplementedError else\n")
        else:
            _, fn, pos, npar = c
            vars_ = [f"a{i}" for i in range(npar)]
            pat = "[" + "; ".join(vars_) + "]"
            call = f"{fsigs[fn].coqname} pl " + " ".join(vars_[p] for p in pos)
            lines.append(f"  if String.eqb name {pyfrag.slit(mname)[:-7]} then "
                         f"match args with {pat} => {call.strip()} | _ => Err TypeError end else\n")
    lines.append(f"  {'gen_method_' + parent + ' name args pl' if parent else 'Err AttributeError'}.\n\n")
    # arity table: Some n for a filter method with n arguments, None when the class has no such filter method
    lines.append(f"Definition gen_arity_{name} (name : string) : option nat :=\n")
    for mname, c, lineno in table:
        if c[0] == "refused":
            lines.append(f"  if String.eqb name {pyfrag.slit(mname)[:-7]} then None else\n")
        else:
            lines.append(f"  if String.eqb name {pyfrag.slit(mname)[:-7]} then Some {c[3]}%nat else\n")
    lines.append(f"  {'gen_arity_' + parent + ' name' if parent else 'None'}.\n\n")
    return "".join(lines)


def generate():
    fpath, fdefs, fsigs, props, meths = filter_functions()
    out = [HEADER, PRELUDE]
    base = method_table(BASE[0], BASE[1], fsigs)
    out.append(f"(* {BASE[0]} *)\n" + emit_methods("Base", base, fsigs))
    names = {"Base": [m for m, c, _ in base if c[0] == "wrapper"]}
    for short, rel, cls in STORERS:
        t = method_table(rel, cls, fsigs)
        out.append(f"(* {rel} *)\n" + emit_methods(short, t, fsigs, parent="Base"))
        refused = {m for m, c, _ in t if c[0] == "refused"}
        own = [m for m, c, _ in t if c[0] == "wrapper"]
        names[short] = [m for m in names["Base"] if m not in refused and m not in own] + own
    for short in ("Oscar", "Jetscape", "PObj"):
        out.append(f"Definition gen_filter_methods_{short} : list string :=\n  [" +
                   "; ".join(pyfrag.slit(m)[:-7] for m in names[short]) + "].\n\n")
    # the dispatch chains
    for short, rel, cls in LOADERS:
        tree, path = parse(rel)
        star_import_of_filter(tree, path)
        c = find_class(tree, cls)
        f = None
        for n in c.body:
            if isinstance(n, ast.FunctionDef) and n.name.endswith("__apply_kwargs_filters"):
                f = n
        if f is None:
            raise TranslateError("__apply_kwargs_filters not found", c, path)
        sig = pyfrag.signature(f, path, skip_self=True)
        sig.coqname = "gen_apply_kwargs_" + short
        out.append(f"(* {rel}:{f.lineno} *)\n")
        out.append(pyfrag.translate_function(f, sig, path, fsigs, props, meths))
        out.append("\n")
        # the literal keys the chain compares against, in order
        keys = []
        for n in ast.walk(f):
            if isinstance(n, ast.Compare) and isinstance(n.left, ast.Name) and n.left.id == "i" \
                    and len(n.ops) == 1 and isinstance(n.ops[0], ast.Eq) and isinstance(n.comparators[0], ast.Constant):
                keys.append(n.comparators[0].value)
        out.append(f"Definition gen_dispatch_keys_{short} : list string :=\n  [" +
                   "; ".join(pyfrag.slit(k)[:-7] for k in keys) + "].\n\n")
    return "".join(out)


def main(outdir):
    return write_if_changed(outdir + "/GenDispatch.v", generate())

"""Gen/GenJackknifeMethods.v from src/sparkx/Jackknife.py: the method bodies of class Jackknife as Gallina over
Model/JackknifeRt.v (the formula-shaped pieces are extracted separately by gen_jackknife.py; this file translates the
WHOLE bodies, which makes the textual pins of gen_jackknife.py redundant).

Translated AS WRITTEN (statements in order, conditions with their operators and constants, argument order, defaults):
  __init__                          -> gen_init                               : pyval -> pyval -> pyval -> St -> result (jself * St)
  _init_random                      -> gen_init_random                        : jself -> St -> result (unit * St)
  _randomly_delete_data             -> gen_randomly_delete_data               : jself -> list A -> St -> result (list A * St)
  _apply_function_to_reduced_data   -> gen_apply_function_to_reduced_data     : jself -> list A -> fun -> Args -> Kwargs -> St -> result (K * St)
  _compute_one_jackknife_sample     -> gen_compute_one_jackknife_sample       : jself -> list A -> fun -> Args -> Kwargs -> St -> result (K * St)
  _helper_unpack (staticmethod)     -> gen_helper_unpack                      : jself -> Z -> list A -> fun -> Args -> Kwargs -> St -> result (K * St)
  _init_random_subprocess           -> gen_init_random_subprocess             : jself -> Z -> St -> result (unit * St)
  _compute_jackknife_samples        -> gen_compute_jackknife_samples          : jself -> list A -> fun -> pyval -> Args -> Kwargs -> St -> result (list K * St)
  compute_jackknife_estimates       -> gen_compute_jackknife_estimates        : jself -> list A -> fun -> pyval -> Args -> Kwargs -> St -> result (K * St)
  defaults of keyword parameters    -> gen_default_<method>_<parameter>       (seed = 42, num_cores = None)
(all inside one Section over the carrier K with its operations, ksqrt = np.sqrt, is_number, the generator
St / reseed / draw, the types A / Args / Kwargs and cpu_count; every definition is generalised over all of them, so
the signatures do not depend on what the source happens to use).  Proofs/Jackknife_Source.v proves them equal to the
hand model Model/Pool.v.

Conventions of the translation (the proofs and the runtime Model/JackknifeRt.v rely on them):
  * every method is a function of the receiver, its arguments and the state g of the `random` generator of the
    executing process and returns `result (value * St)` (exception class, or the value and the state afterwards);
    a Python local `x` is the Coq variable `v_x`, rebinding is shadowing, the current generator state is always `g`;
    the methods are emitted in dependency order (a call cycle aborts);
  * parameter TYPES come from the table METHODS below (the parameter NAMES and defaults from the source): `pyval`
    for what the user passes and the code inspects (delete_fraction, number_samples, seed, num_cores), `list A` for
    the data array, `list A -> Args -> Kwargs -> K` for the statistic, Args / Kwargs for `*args` / `**kwargs`;
  * `if not isinstance(x, int|float): raise E(..)` on a dynamically typed x NARROWS: `match rt_as_int v_x with
    None => Err E | Some v_x => ...` and x is a Z / Q from there on; `isinstance(x, T) and c` narrows x inside c
    (`match rt_as_T v_x with None => false | Some v_x => c end`); isinstance on an already narrowed variable is the
    constant true / false its static type gives; isinstance(data, np.ndarray) and callable(function) are the typed
    model's constants rt_is_ndarray / rt_callable; isinstance(r, (int, float)) on a value of the statistic is the
    oracle is_number;
  * `if c: raise E(..)` is `if c then Err E else <the rest>` (the message is dropped); `if c: x = e` (no else) is
    `let v_x := if c then e else v_x`; `and` / `or` are && / || (operands after the first must not raise);
  * `self.a` reads the record field (None: AttributeError); `self.a = e` is a record update (only in __init__, which
    starts from jk_empty and returns the object);
  * ints are Z, the finite float delete_fraction is a Q (`int(e)` = Qtrunc, `a < b` = rt_qlt, `a >= b` = Qle_bool b a,
    an int meeting a float is injected), everything computed from values of the statistic is in the carrier K
    (`x ** 2.0` = kpow x 2, a float literal without a float operand next to it is a number of K and must be
    integral, `i / j` on ints = rt_truediv_int with ZeroDivisionError, `i // c` = Z.div for a non-zero literal c);
  * `for i in range(n): <assignments>` is rt_for over rt_range n, carrying the variables the body assigns (they must
    exist before the loop and keep their types); the body must not touch the generator;
  * `rd.seed(e)` is `let g := rt_seed .. e g`; `rd.sample(range(n), d)` is rt_sample (ValueError for d < 0, d > n);
    `a.copy()`, `np.delete(a, idx, axis=0)`, `np.mean`, `np.sqrt`, `np.array`, `len`, `max`, `min`, `a[i]`, `a[:e]`,
    `os.cpu_count()` are the functions / oracles of the runtime file; `function(x, *args, **kwargs)` is the
    application of the statistic; `recv.m(a, .., *args, **kwargs)` is `gen_m recv a .. args kwargs g` (the explicit
    positionals must fill exactly the named parameters; a missing trailing parameter takes its default);
  * `with Pool(p, initializer=recv.m, initargs=(..)) as pool: r = pool.starmap(recv.f, [(..) for i in range(n)])`
    is rt_pool (the worker: parent state, then the initializer) followed by rt_starmap (the tuples in order, results
    by position) - the ASSUMED semantics of multiprocessing, see the runtime file; the tuple must have exactly the
    parameters of f (a staticmethod: all of them).
Nothing is compared with a stored copy of source text.  Accepted in exactly ONE form (anything else aborts): the
default `function=np.mean` of compute_jackknife_estimates (not emitted: the statistic is a parameter), the classes
`np.ndarray` and `(int, float)` of the two isinstance checks on typed values, `axis=0` of np.delete, `range(..)` as
population of rd.sample, the keywords `initializer` / `initargs` of Pool.
Fail-closed: every statement / expression shape that is not listed in `Tr.block` / `Tr.ex` raises TranslateError
with the source location.
"""
import ast
from fractions import Fraction
from .core import *

SRC = "src/sparkx/Jackknife.py"
OUTPUTS = ["GenJackknifeMethods"]

EXN = {"TypeError", "ValueError", "IndexError", "KeyError", "AttributeError", "ZeroDivisionError"}
SELF_ATTRS = {"delete_fraction": "Q", "number_samples": "Z", "seed": "Z"}
COQ_TY = {"pyval": "pyval", "Q": "Q", "Z": "Z", "K": "K", "arr": "(list A)", "samples": "(list K)",
          "idx": "(list nat)", "fun": "(list A -> Args -> Kwargs -> K)", "args": "Args", "kwargs": "Kwargs",
          "self": "jself", "bool": "bool", "unit": "unit"}
NUMK = "K k0 k1 kadd kmul kopp"            # parameters of rt_of_int
DIVK = "K k0 k1 kadd kmul kdiv kopp"       # parameters of rt_np_mean / rt_truediv_int


class Meth:
    def __init__(self, params, ret, static=False, varargs=False):
        self.params, self.ret, self.static, self.varargs = params, ret, static, varargs


METHODS = {
    "__init__": Meth(["pyval", "pyval", "pyval"], "self"),
    "_init_random": Meth([], "unit"),
    "_randomly_delete_data": Meth(["arr"], "arr"),
    "_apply_function_to_reduced_data": Meth(["arr", "fun"], "K", varargs=True),
    "_compute_one_jackknife_sample": Meth(["arr", "fun"], "K", varargs=True),
    "_helper_unpack": Meth(["self", "Z", "arr", "fun", "args", "kwargs"], "K", static=True),
    "_init_random_subprocess": Meth(["Z"], "unit"),
    "_compute_jackknife_samples": Meth(["arr", "fun", "pyval"], "samples", varargs=True),
    "compute_jackknife_estimates": Meth(["arr", "fun", "pyval"], "K", varargs=True),
}


def coqname(py):
    return "gen_" + py.strip("_")


def qlit(fr):
    n, d = fr.numerator, fr.denominator
    return f"({n} # {d})" if n >= 0 else f"(({n}) # {d})"


def zlit(n):
    return f"{n}%Z" if n >= 0 else f"({n})%Z"


def tup(names):
    return names[0] if len(names) == 1 else "(" + ", ".join(names) + ")"


def pat(names):
    return names[0] if len(names) == 1 else "'(" + ", ".join(names) + ")"


def is_numlit(n):
    if isinstance(n, ast.UnaryOp) and isinstance(n.op, (ast.USub, ast.UAdd)):
        return is_numlit(n.operand)
    return isinstance(n, ast.Constant) and isinstance(n.value, (int, float)) and not isinstance(n.value, bool)


def numlit_value(n):
    if isinstance(n, ast.UnaryOp):
        v = numlit_value(n.operand)
        return -v if isinstance(n.op, ast.USub) else v
    return n.value


class Info:
    """what the source says about one method: the def, parameter names, defaults"""

    def __init__(self, name, fdef, path):
        m = METHODS[name]
        self.name, self.fdef = name, fdef
        decos = [ast.unparse(d) for d in fdef.decorator_list]
        if decos != (["staticmethod"] if m.static else []):
            raise TranslateError(f"{name}: decorators {decos!r} not accepted", fdef, path)
        a = fdef.args
        if a.posonlyargs or a.kwonlyargs or a.kw_defaults:
            raise TranslateError(f"{name}: positional-only / keyword-only parameters not accepted", fdef, path)
        if (a.vararg is not None) != m.varargs or (a.kwarg is not None) != m.varargs:
            raise TranslateError(f"{name}: *args / **kwargs differ from the table", fdef, path)
        names = [x.arg for x in a.args]
        if not m.static:
            if not names:
                raise TranslateError(f"{name}: no receiver parameter", fdef, path)
            self.selfname, names = names[0], names[1:]
        else:
            self.selfname = None
        if len(names) != len(m.params):
            raise TranslateError(f"{name}: {len(names)} parameters, the table has {len(m.params)}", fdef, path)
        self.pnames = names
        self.vararg = a.vararg.arg if a.vararg else None
        self.kwarg = a.kwarg.arg if a.kwarg else None
        all_names = ([self.selfname] if self.selfname else []) + names + [x for x in (self.vararg, self.kwarg) if x]
        if len(set(all_names)) != len(all_names):
            raise TranslateError(f"{name}: duplicate parameter names", fdef, path)
        nd = len(a.defaults)
        if nd > len(names):
            raise TranslateError(f"{name}: default on the receiver", fdef, path)
        self.defaults = [None] * (len(names) - nd) + list(a.defaults)

    def default_name(self, i):
        return f"gen_default_{self.name.strip('_')}_{self.pnames[i]}"


class Tr:
    """translation of one method body"""

    def __init__(self, name, table, path):
        self.name, self.m, self.info, self.table, self.path = name, METHODS[name], table[name], table, path
        self.binds, self.n, self.in_loop = [], 0, False
        self.callees = []

    def err(self, msg, node=None):
        return TranslateError(f"{self.name}: {msg}", node, self.path)

    def fresh(self, hint):
        self.n += 1
        return f"{hint}{self.n}"

    # ------------------------------------------------------------------ implicit binds of one statement
    def add_bind(self, b, node=None):
        if self.in_loop and b[0] == "resg":
            raise self.err("a loop body must not touch the random generator", node)
        self.binds.append(b)

    def wrap(self, binds, inner):
        for b in reversed(binds):
            if b[0] == "opt":
                inner = f"match {b[2]} with\n| None => Err AttributeError\n| Some {b[1]} =>\n{inner}\nend"
            elif b[0] == "res":
                inner = f"match {b[2]} with\n| Err e_ => Err e_\n| Ok {b[1]} =>\n{inner}\nend"
            elif b[0] == "resg":
                inner = f"match {b[2]} with\n| Err e_ => Err e_\n| Ok ({b[1]}, g) =>\n{inner}\nend"
            else:
                raise self.err("internal: bind kind " + b[0])
        return inner

    def state(self, node=None):
        if self.in_loop:
            raise self.err("a loop body must not touch the random generator", node)
        return "g"

    @staticmethod
    def bind(env, name, coq, ty):
        e = dict(env)
        e[name] = (coq, ty)
        return e

    # ------------------------------------------------------------------ coercions
    def coerce(self, text, ty, want, node=None):
        if want is None or ty == want:
            return text
        if ty == "Z" and want == "Q":
            return f"(inject_Z {text})"
        if ty == "Z" and want == "K":
            return f"(rt_of_int {NUMK} {text})"
        if ty == "Z" and want == "pyval":
            return f"(VInt {text})"
        if ty == "Q" and want == "pyval":
            return f"(VFloat {text})"
        raise self.err(f"value of type {ty} where {want} is expected: {ast.unparse(node) if node is not None else text}", node)

    def unify_num(self, a, ta, b, tb, node):
        for t in (ta, tb):
            if t not in ("Z", "Q", "K"):
                raise self.err(f"arithmetic / comparison on a value of type {t} (a dynamically typed value needs an isinstance guard first)", node)
        if ta == tb:
            return a, b, ta
        if {ta, tb} == {"Z", "Q"}:
            return self.coerce(a, ta, "Q"), self.coerce(b, tb, "Q"), "Q"
        if {ta, tb} == {"Z", "K"}:
            return self.coerce(a, ta, "K"), self.coerce(b, tb, "K"), "K"
        raise self.err(f"operands of types {ta} and {tb}", node)

    def truth(self, node, env):
        t, ty = self.ex(node, env)
        if ty != "bool":
            raise self.err(f"truth value of a {ty} not accepted", node)
        return t

    # ------------------------------------------------------------------ expressions
    def num(self, node, want):
        v = numlit_value(node)
        if isinstance(v, float) and (v != v or v in (float("inf"), float("-inf"))):
            raise self.err("non-finite literal", node)
        fr = Fraction(v)
        if want == "Q":
            return qlit(fr), "Q"
        if isinstance(v, float) or want == "K":
            if isinstance(v, float) and want == "Z":
                return qlit(fr), "Q"
            if fr.denominator != 1:
                raise self.err(f"non-integral float literal {v!r} over the abstract carrier", node)
            return f"(rt_of_int {NUMK} {zlit(fr.numerator)})", "K"
        return zlit(fr.numerator), "Z"

    def operands(self, left, right, env, want=None):
        """both operands of a binary arithmetic operator / comparison, a literal typed by the other operand"""
        if is_numlit(left) and is_numlit(right):
            raise self.err("operator between two literals", left)
        if is_numlit(left):
            b, tb = self.ex(right, env, want)
            a, ta = self.num(left, tb)
        else:
            a, ta = self.ex(left, env, want)
            b, tb = self.num(right, ta) if is_numlit(right) else self.ex(right, env, ta)
        return a, ta, b, tb

    def ex(self, n, env, want=None):
        if is_numlit(n):
            return self.num(n, want)
        if isinstance(n, ast.Constant):
            if isinstance(n.value, bool):
                return ("true" if n.value else "false"), "bool"
            if n.value is None:
                return "VNone", "pyval"
            raise self.err("literal not accepted: " + repr(n.value), n)
        if isinstance(n, ast.Name):
            if n.id not in env:
                raise self.err(f"name `{n.id}` is not bound here", n)
            return env[n.id]
        if isinstance(n, ast.UnaryOp):
            if isinstance(n.op, ast.Not):
                return f"(negb {self.truth(n.operand, env)})", "bool"
            if isinstance(n.op, ast.USub):
                t, ty = self.ex(n.operand, env, want)
                op = {"Z": "Z.opp", "Q": "Qopp", "K": "kopp"}.get(ty)
                if op:
                    return f"({op} {t})", ty
            raise self.err("unary operator not accepted", n)
        if isinstance(n, ast.BinOp):
            return self.binop(n, env, want)
        if isinstance(n, ast.BoolOp):
            return self.boolop(n.values, isinstance(n.op, ast.And), env, n), "bool"
        if isinstance(n, ast.Compare):
            return self.compare(n, env), "bool"
        if isinstance(n, ast.Attribute):
            return self.attr(n, env)
        if isinstance(n, ast.Subscript):
            return self.subscript(n, env)
        if isinstance(n, ast.Call):
            return self.call(n, env)
        if isinstance(n, ast.Tuple):
            parts = [self.ex(e, env) for e in n.elts]
            if len(parts) < 2:
                raise self.err("tuple of fewer than two elements outside initargs", n)
            return "(" + ", ".join(p[0] for p in parts) + ")", ("tuple", [p[1] for p in parts])
        raise self.err("expression not accepted: " + ast.unparse(n)[:80], n)

    def binop(self, n, env, want):
        op = type(n.op)
        if op is ast.Pow:
            b, tb = self.ex(n.left, env, "K")
            if tb != "K":
                raise self.err(f"power of a {tb}", n)
            e = int_const(n.right, self.path)
            if e < 0 or e > 64:
                raise self.err("exponent out of range", n)
            return f"(kpow k1 kmul {b} {e}%nat)", "K"
        if op not in (ast.Add, ast.Sub, ast.Mult, ast.Div, ast.FloorDiv):
            raise self.err("operator not accepted: " + op.__name__, n)
        a, ta, b, tb = self.operands(n.left, n.right, env, want if want in ("Q", "K") else None)
        if op is ast.FloorDiv:
            if ta != "Z" or tb != "Z":
                raise self.err("// on non-ints", n)
            if is_numlit(n.right) and numlit_value(n.right) != 0:
                return f"(Z.div {a} {b})", "Z"
            r = self.fresh("r")
            self.add_bind(("res", r, f"rt_floordiv {a} {b}"), n)
            return r, "Z"
        if op is ast.Div:
            if ta == "Z" and tb == "Z":
                r = self.fresh("r")
                self.add_bind(("res", r, f"rt_truediv_int {DIVK} {a} {b}"), n)
                return r, "K"
            a, b, t = self.unify_num(a, ta, b, tb, n)
            if t != "K":
                raise self.err("float division outside the carrier", n)
            return f"(kdiv {a} {b})", "K"
        a, b, t = self.unify_num(a, ta, b, tb, n)
        name = {"Z": {ast.Add: "Z.add", ast.Sub: "Z.sub", ast.Mult: "Z.mul"},
                "Q": {ast.Add: "Qplus", ast.Sub: "Qminus", ast.Mult: "Qmult"},
                "K": {ast.Add: "kadd", ast.Sub: "ksub", ast.Mult: "kmul"}}[t][op]
        return f"({name} {a} {b})", t

    def narrowing(self, n, env):
        """isinstance(<name of a dynamically typed value>, int|float) -> (python name, class) or None"""
        if isinstance(n, ast.Call) and isinstance(n.func, ast.Name) and n.func.id == "isinstance" and len(n.args) == 2 \
                and not n.keywords and isinstance(n.args[0], ast.Name) and n.args[0].id in env \
                and env[n.args[0].id][1] == "pyval" and isinstance(n.args[1], ast.Name) and n.args[1].id in ("int", "float"):
            return n.args[0].id, n.args[1].id
        return None

    def pure_truth(self, node, env):
        k = len(self.binds)
        t = self.truth(node, env)
        if len(self.binds) != k:
            raise self.err("an operand of and / or after the first one may raise: not accepted", node)
        return t

    def boolop(self, values, is_and, env, node, first=True):
        head, rest = values[0], values[1:]
        nar = self.narrowing(head, env)
        if nar and is_and and rest:
            name, cls = nar
            env2 = self.bind(env, name, env[name][0], {"int": "Z", "float": "Q"}[cls])
            inner = self.boolop(rest, True, env2, node, False)
            return f"(match rt_as_{cls} {env[name][0]} with None => false | Some {env[name][0]} => {inner} end)"
        a = self.truth(head, env) if first else self.pure_truth(head, env)
        if not rest:
            return a
        b = self.boolop(rest, is_and, env, node, False)
        return f"({a} {'&&' if is_and else '||'} {b})"

    def compare(self, n, env):
        if len(n.ops) != 1:
            raise self.err("chained comparison not accepted", n)
        op, left, right = n.ops[0], n.left, n.comparators[0]
        if isinstance(op, (ast.Is, ast.IsNot)):
            if not (isinstance(right, ast.Constant) and right.value is None):
                raise self.err("`is` only against None", n)
            t, ty = self.ex(left, env)
            if ty != "pyval":
                raise self.err(f"`is None` on a {ty}", n)
            return f"(rt_is_none {t})" if isinstance(op, ast.Is) else f"(negb (rt_is_none {t}))"
        a, ta, b, tb = self.operands(left, right, env)
        a, b, t = self.unify_num(a, ta, b, tb, n)
        if t == "Z":
            table = {ast.Lt: f"({a} <? {b})%Z", ast.LtE: f"({a} <=? {b})%Z", ast.Gt: f"({b} <? {a})%Z",
                     ast.GtE: f"({b} <=? {a})%Z", ast.Eq: f"({a} =? {b})%Z", ast.NotEq: f"(negb ({a} =? {b})%Z)"}
        elif t == "Q":
            table = {ast.Lt: f"(rt_qlt {a} {b})", ast.LtE: f"(Qle_bool {a} {b})", ast.Gt: f"(rt_qlt {b} {a})",
                     ast.GtE: f"(Qle_bool {b} {a})", ast.Eq: f"(Qeq_bool {a} {b})", ast.NotEq: f"(negb (Qeq_bool {a} {b}))"}
        else:
            raise self.err("comparison in the abstract carrier", n)
        if type(op) not in table:
            raise self.err("comparison not accepted: " + type(op).__name__, n)
        return table[type(op)]

    def receiver(self, node, env):
        if isinstance(node, ast.Name) and node.id in env and env[node.id][1] == "self":
            return env[node.id][0]
        return None

    def attr(self, n, env):
        recv = self.receiver(n.value, env)
        if recv is None or n.attr not in SELF_ATTRS:
            raise self.err("attribute not accepted: " + ast.unparse(n), n)
        v = self.fresh("a")
        self.add_bind(("opt", v, f"{n.attr}_ {recv}"), n)
        return v, SELF_ATTRS[n.attr]

    def subscript(self, n, env):
        base, tb = self.ex(n.value, env)
        if isinstance(n.slice, ast.Slice):
            if n.slice.lower is not None or n.slice.step is not None or n.slice.upper is None:
                raise self.err("only a[:e] is accepted as a slice", n)
            if tb not in ("arr", "samples"):
                raise self.err(f"slice of a {tb}", n)
            e, te = self.ex(n.slice.upper, env)
            if te != "Z":
                raise self.err("slice bound is not an int", n)
            return f"(rt_slice_to {base} {e})", tb
        if tb != "samples":
            raise self.err(f"indexing a {tb}", n)
        i, ti = self.ex(n.slice, env)
        if ti != "Z":
            raise self.err("index is not an int", n)
        r = self.fresh("r")
        self.add_bind(("res", r, f"rt_getitem {base} {i}"), n)
        return r, "K"

    def plain_args(self, n, k, what):
        if len(n.args) != k or n.keywords or any(isinstance(a, ast.Starred) for a in n.args):
            raise self.err(f"{what}: expected {k} positional argument(s)", n)
        return n.args

    def call(self, n, env):
        f = n.func
        src = ast.unparse(f)
        if isinstance(f, ast.Name) and f.id in env:
            if env[f.id][1] != "fun":
                raise self.err(f"call of a {env[f.id][1]}", n)
            return self.funcall(n, env)
        if src == "isinstance":
            x, c = self.plain_args(n, 2, "isinstance")
            t, ty = self.ex(x, env)
            cs = ast.unparse(c)
            if ty == "pyval" and cs in ("int", "float"):
                return f"(rt_isinstance_{cs} {t})", "bool"
            if ty in ("Z", "Q") and cs in ("int", "float"):
                return ("true" if (ty, cs) in (("Z", "int"), ("Q", "float")) else "false"), "bool"
            if ty == "arr" and cs in ("np.ndarray", "numpy.ndarray"):
                return f"(rt_is_ndarray {t})", "bool"
            if ty == "K" and isinstance(c, ast.Tuple) and sorted(ast.unparse(e) for e in c.elts) == ["float", "int"]:
                return f"(is_number {t})", "bool"
            raise self.err(f"isinstance of a {ty} against {cs} not accepted", n)
        if src == "callable":
            (x,) = self.plain_args(n, 1, "callable")
            t, ty = self.ex(x, env)
            if ty != "fun":
                raise self.err(f"callable of a {ty}", n)
            return f"(rt_callable {t})", "bool"
        if src == "len":
            (x,) = self.plain_args(n, 1, "len")
            t, ty = self.ex(x, env)
            if ty not in ("arr", "samples", "idx"):
                raise self.err(f"len of a {ty}", n)
            return f"(zlen {t})", "Z"
        if src == "int":
            (x,) = self.plain_args(n, 1, "int")
            t, ty = self.ex(x, env)
            if ty == "Q":
                return f"(Qtrunc {t})", "Z"
            if ty == "Z":
                return t, "Z"
            raise self.err(f"int of a {ty}", n)
        if src in ("max", "min"):
            x, y = self.plain_args(n, 2, src)
            a, ta, b, tb = self.operands(x, y, env)
            if ta != "Z" or tb != "Z":
                raise self.err(f"{src} on non-ints", n)
            return f"(Z.{src} {a} {b})", "Z"
        if src in ("rd.sample", "random.sample"):
            pop, cnt = self.plain_args(n, 2, "rd.sample")
            if not (isinstance(pop, ast.Call) and ast.unparse(pop.func) == "range"):
                raise self.err("the population of rd.sample must be range(..)", n)
            (size,) = self.plain_args(pop, 1, "range")
            s, ts = self.ex(size, env)
            c, tc = self.ex(cnt, env)
            if ts != "Z" or tc != "Z":
                raise self.err("rd.sample(range(n), d) needs ints", n)
            r = self.fresh("r")
            self.add_bind(("resg", r, f"rt_sample St draw {self.state(n)} {s} {c}"), n)
            return r, "idx"
        if src in ("np.delete", "numpy.delete"):
            if len(n.args) != 2 or len(n.keywords) != 1 or n.keywords[0].arg != "axis" \
                    or not (isinstance(n.keywords[0].value, ast.Constant) and n.keywords[0].value.value == 0
                            and not isinstance(n.keywords[0].value.value, bool)):
                raise self.err("expected np.delete(a, indices, axis=0)", n)
            a, ta = self.ex(n.args[0], env)
            i, ti = self.ex(n.args[1], env)
            if ta != "arr" or ti != "idx":
                raise self.err(f"np.delete of a {ta} with a {ti}", n)
            return f"(rt_np_delete {a} {i})", "arr"
        if src in ("np.mean", "numpy.mean"):
            (x,) = self.plain_args(n, 1, "np.mean")
            t, ty = self.ex(x, env)
            if ty != "samples":
                raise self.err(f"np.mean of a {ty}", n)
            return f"(rt_np_mean {DIVK} {t})", "K"
        if src in ("np.sqrt", "numpy.sqrt"):
            (x,) = self.plain_args(n, 1, "np.sqrt")
            t, ty = self.ex(x, env, "K")
            if ty != "K":
                raise self.err(f"np.sqrt of a {ty}", n)
            return f"(ksqrt {t})", "K"
        if src in ("np.array", "numpy.array"):
            (x,) = self.plain_args(n, 1, "np.array")
            t, ty = self.ex(x, env)
            if ty != "samples":
                raise self.err(f"np.array of a {ty}", n)
            return f"(rt_np_array {t})", "samples"
        if src == "os.cpu_count":
            self.plain_args(n, 0, "os.cpu_count")
            return "cpu_count", "pyval"
        if isinstance(f, ast.Attribute) and f.attr == "copy":
            self.plain_args(n, 0, "copy")
            t, ty = self.ex(f.value, env)
            if ty != "arr":
                raise self.err(f"copy of a {ty}", n)
            return f"(rt_copy {t})", "arr"
        if isinstance(f, ast.Attribute) and self.receiver(f.value, env) is not None and f.attr in METHODS:
            return self.mcall(n, env)
        raise self.err("call not accepted: " + src, n)

    def star_args(self, n, env):
        """(`*x`, `**y`) of a call -> the Coq terms; both or neither"""
        stars = [a for a in n.args if isinstance(a, ast.Starred)]
        kws = [k for k in n.keywords if k.arg is None]
        if any(k.arg is not None for k in n.keywords):
            raise self.err("keyword arguments in a call not accepted", n)
        if not stars and not kws:
            return None
        if len(stars) != 1 or len(kws) != 1 or n.args[-1] is not stars[0]:
            raise self.err("expected `*args, **kwargs` after the positional arguments", n)
        a, ta = self.ex(stars[0].value, env)
        k, tk = self.ex(kws[0].value, env)
        if ta != "args" or tk != "kwargs":
            raise self.err(f"`*` of a {ta} / `**` of a {tk}", n)
        return a, k

    def funcall(self, n, env):
        pos = [a for a in n.args if not isinstance(a, ast.Starred)]
        st = self.star_args(n, env)
        if len(pos) != 1 or st is None:
            raise self.err("the statistic must be called as function(x, *args, **kwargs)", n)
        x, tx = self.ex(pos[0], env)
        if tx != "arr":
            raise self.err(f"the statistic applied to a {tx}", n)
        return f"({env[n.func.id][0]} {x} {st[0]} {st[1]})", "K"

    def mcall(self, n, env):
        name = n.func.attr
        m, info = METHODS[name], self.table[name]
        recv = self.receiver(n.func.value, env)
        if m.static or name == "__init__":
            raise self.err(f"direct call of {name} not accepted", n)
        pos = [a for a in n.args if not isinstance(a, ast.Starred)]
        if len(pos) > len(m.params):
            raise self.err(f"too many arguments for {name}", n)
        terms = []
        for i, ty in enumerate(m.params):
            if i < len(pos):
                t, tt = self.ex(pos[i], env, ty)
                terms.append(self.coerce(t, tt, ty, pos[i]))
            elif info.defaults[i] is not None:
                terms.append(info.default_name(i))
            else:
                raise self.err(f"argument {info.pnames[i]} of {name} is missing", n)
        st = self.star_args(n, env)
        if m.varargs:
            if st is None or len(pos) != len(m.params):
                raise self.err(f"{name} must be called with all its named parameters followed by *args, **kwargs", n)
            terms += list(st)
        elif st is not None:
            raise self.err(f"{name} takes no *args / **kwargs", n)
        if name not in self.callees:
            self.callees.append(name)
        g = self.state(n)
        if m.ret == "unit":
            self.add_bind(("resg", "_", f"{coqname(name)} {' '.join([recv] + terms + [g])}"), n)
            return "tt", "unit"
        r = self.fresh("r")
        self.add_bind(("resg", r, f"{coqname(name)} {' '.join([recv] + terms + [g])}"), n)
        return r, m.ret

    # ------------------------------------------------------------------ statements
    def exc_class(self, s):
        e = s.exc
        if isinstance(e, ast.Call):
            e = e.func
        if s.cause is not None or not isinstance(e, ast.Name) or e.id not in EXN:
            raise self.err("raise of this shape / class not accepted", s)
        return e.id

    def fall_off(self, env, node):
        if self.name == "__init__":
            return f"Ok (self, {self.state(node)})"
        if self.m.ret == "unit":
            return f"Ok (tt, {self.state(node)})"
        raise self.err("the method may end without a return", node)

    def block(self, stmts, env, last):
        if not stmts:
            return self.fall_off(env, last)
        s, rest = stmts[0], stmts[1:]
        nxt = lambda e: self.block(rest, e, s)
        self.binds = []
        if isinstance(s, ast.Expr) and isinstance(s.value, ast.Constant) and isinstance(s.value.value, str):
            return nxt(env)
        if isinstance(s, ast.If):
            return self.if_(s, env, nxt)
        if isinstance(s, ast.Return):
            if rest:
                raise self.err("statements after a return", rest[0])
            if self.name == "__init__" or s.value is None:
                raise self.err("return shape not accepted", s)
            t, ty = self.ex(s.value, env, self.m.ret)
            t = self.coerce(t, ty, self.m.ret, s.value)
            return self.wrap(self.binds, f"Ok ({t}, {self.state(s)})")
        if isinstance(s, ast.AugAssign):
            if not isinstance(s.target, ast.Name) or s.target.id not in env:
                raise self.err("augmented assignment to something that is not an existing local", s)
            value = ast.BinOp(left=ast.Name(id=s.target.id, ctx=ast.Load()), op=s.op, right=s.value)
            ast.copy_location(value, s)
            ast.fix_missing_locations(value)
            return self.assign_name(s.target.id, value, env, nxt, s)
        if isinstance(s, ast.Assign):
            if len(s.targets) != 1:
                raise self.err("multiple assignment targets", s)
            tg = s.targets[0]
            if isinstance(tg, ast.Name):
                return self.assign_name(tg.id, s.value, env, nxt, s)
            if isinstance(tg, ast.Attribute) and self.receiver(tg.value, env) == "self" and tg.attr in SELF_ATTRS:
                if self.name != "__init__":
                    raise self.err("attribute assignment outside __init__", s)
                t, ty = self.ex(s.value, env, SELF_ATTRS[tg.attr])
                t = self.coerce(t, ty, SELF_ATTRS[tg.attr], s.value)
                b = self.binds
                return self.wrap(b, f"let self := set_{tg.attr}_ self (Some {t}) in\n{nxt(env)}")
            raise self.err("assignment target not accepted", s)
        if isinstance(s, ast.Expr) and isinstance(s.value, ast.Call):
            c = s.value
            if ast.unparse(c.func) in ("rd.seed", "random.seed"):
                (x,) = self.plain_args(c, 1, "rd.seed")
                t, ty = self.ex(x, env)
                if ty != "Z":
                    raise self.err(f"rd.seed of a {ty}", s)
                b = self.binds
                return self.wrap(b, f"let g := rt_seed St reseed {t} {self.state(s)} in\n{nxt(env)}")
            if isinstance(c.func, ast.Attribute) and self.receiver(c.func.value, env) is not None and c.func.attr in METHODS:
                self.mcall(c, env)
                b = self.binds
                return self.wrap(b, nxt(env))
            raise self.err("expression statement not accepted: " + ast.unparse(c)[:60], s)
        if isinstance(s, ast.For):
            return self.for_(s, env, nxt)
        if isinstance(s, ast.With):
            return self.with_pool(s, env, nxt)
        raise self.err("statement not accepted: " + type(s).__name__, s)

    def assign_name(self, name, value, env, nxt, s):
        if name in env and env[name][1] == "self":
            raise self.err("rebinding the receiver", s)
        t, ty = self.ex(value, env, env[name][1] if name in env and env[name][1] in ("Q", "K") else None)
        if isinstance(ty, tuple) or ty == "unit":
            raise self.err(f"a local of type {ty} not accepted", s)
        b = self.binds
        return self.wrap(b, f"let v_{name} := {t} in\n{nxt(self.bind(env, name, 'v_' + name, ty))}")

    def if_(self, s, env, nxt):
        if s.orelse:
            raise self.err("if with else not accepted", s)
        if len(s.body) == 1 and isinstance(s.body[0], ast.Raise):
            cls = self.exc_class(s.body[0])
            t = s.test
            nar = self.narrowing(t.operand, env) if isinstance(t, ast.UnaryOp) and isinstance(t.op, ast.Not) else None
            if nar:
                name, c = nar
                v = env[name][0]
                env2 = self.bind(env, name, v, {"int": "Z", "float": "Q"}[c])
                return f"match rt_as_{c} {v} with\n| None => Err {cls}\n| Some {v} =>\n{nxt(env2)}\nend"
            c = self.truth(t, env)
            b = self.binds
            return self.wrap(b, f"if {c} then Err {cls} else\n{nxt(env)}")
        # if c: x = e [; y = e']   (no else): conditional rebinding of existing locals
        names = []
        for a in s.body:
            if not (isinstance(a, ast.Assign) and len(a.targets) == 1 and isinstance(a.targets[0], ast.Name)
                    and a.targets[0].id in env and env[a.targets[0].id][1] != "self"):
                raise self.err("the body of this `if` is neither a single raise nor assignments to existing locals", s)
            if a.targets[0].id in names:
                raise self.err("a local assigned twice in one `if` body", a)
            names.append(a.targets[0].id)
        c = self.truth(s.test, env)
        b = self.binds
        self.binds = []
        envb, lets = env, ""
        for a in s.body:
            nm = a.targets[0].id
            t, ty = self.ex(a.value, envb, env[nm][1])
            t = self.coerce(t, ty, env[nm][1], a.value)
            lets += f"let v_{nm} := {t} in "
            envb = self.bind(envb, nm, "v_" + nm, env[nm][1])
        if self.binds:
            raise self.err("an assignment under `if` that may raise or touches the generator: not accepted", s)
        olds = [env[nm][0] for nm in names]
        news = ["v_" + nm for nm in names]
        env2 = env
        for nm in names:
            env2 = self.bind(env2, nm, "v_" + nm, env[nm][1])
        return self.wrap(b, f"let {pat(news)} := if {c} then ({lets}{tup(news)}) else {tup(olds)} in\n{nxt(env2)}")

    def range_arg(self, it, env):
        if not (isinstance(it, ast.Call) and ast.unparse(it.func) == "range"):
            raise self.err("iteration over something that is not range(n)", it)
        (x,) = self.plain_args(it, 1, "range")
        t, ty = self.ex(x, env)
        if ty != "Z":
            raise self.err(f"range of a {ty}", it)
        return t

    def for_(self, s, env, nxt):
        if s.orelse or not isinstance(s.target, ast.Name):
            raise self.err("for loop shape not accepted", s)
        n_t = self.range_arg(s.iter, env)
        b_iter = self.binds
        carried = []
        for a in s.body:
            tg = a.target if isinstance(a, ast.AugAssign) else a.targets[0] if isinstance(a, ast.Assign) and len(a.targets) == 1 else None
            if not isinstance(tg, ast.Name):
                raise self.err("a loop body may only assign to locals", a)
            if tg.id not in env or tg.id == s.target.id or env[tg.id][1] == "self":
                raise self.err(f"the loop assigns `{tg.id}`, which is not a local defined before the loop", a)
            if tg.id not in carried:
                carried.append(tg.id)
        if not carried:
            raise self.err("empty loop body", s)
        ivar = "v_" + s.target.id
        envb = self.bind(env, s.target.id, ivar, "Z")
        for nm in carried:
            envb = self.bind(envb, nm, "v_" + nm, env[nm][1])
        was = self.in_loop
        self.in_loop = True

        def body(stmts, e):
            if not stmts:
                for nm in carried:
                    if e[nm][1] != env[nm][1]:
                        raise self.err(f"the loop changes the type of `{nm}` from {env[nm][1]} to {e[nm][1]}", s)
                return f"Ok {tup(['v_' + nm for nm in carried])}"
            a, more = stmts[0], stmts[1:]
            self.binds = []
            if isinstance(a, ast.AugAssign):
                value = ast.BinOp(left=ast.Name(id=a.target.id, ctx=ast.Load()), op=a.op, right=a.value)
                ast.copy_location(value, a)
                ast.fix_missing_locations(value)
                name = a.target.id
            else:
                value, name = a.value, a.targets[0].id
            return self.assign_name(name, value, e, lambda e2: body(more, e2), a)

        text = body(s.body, envb)
        self.in_loop = was
        cur = [env[nm][0] for nm in carried]
        new = ["v_" + nm for nm in carried]
        env2 = env
        for nm in carried:
            env2 = self.bind(env2, nm, "v_" + nm, env[nm][1])
        return self.wrap(b_iter, f"match rt_for (fun {pat(new)} {ivar} =>\n{text}) (rt_range {n_t}) {tup(cur)} with\n"
                                 f"| Err e_ => Err e_\n| Ok {pat(new)} =>\n{nxt(env2)}\nend")

    def bound_method(self, node, env, what):
        """recv.m with recv the object -> (receiver term, method name)"""
        if not (isinstance(node, ast.Attribute) and self.receiver(node.value, env) is not None and node.attr in METHODS
                and node.attr != "__init__"):
            raise self.err(f"{what} must be a method of the object", node)
        if node.attr not in self.callees:
            self.callees.append(node.attr)
        return self.receiver(node.value, env), node.attr

    def with_pool(self, s, env, nxt):
        if len(s.items) != 1:
            raise self.err("with: one context manager expected", s)
        ctx, var = s.items[0].context_expr, s.items[0].optional_vars
        if not (isinstance(ctx, ast.Call) and ast.unparse(ctx.func) in ("Pool", "multiprocessing.Pool") and isinstance(var, ast.Name)):
            raise self.err("expected `with Pool(...) as <name>:`", s)
        if var.id in env:
            raise self.err("the pool variable shadows a local", s)
        if len(ctx.args) != 1 or isinstance(ctx.args[0], ast.Starred) or sorted(str(k.arg) for k in ctx.keywords) != ["initargs", "initializer"]:
            raise self.err("expected Pool(<processes>, initializer=.., initargs=..)", ctx)
        kw = {k.arg: k.value for k in ctx.keywords}
        p, tp = self.ex(ctx.args[0], env)
        if tp != "pyval":
            raise self.err(f"number of processes of type {tp}", ctx)
        recv, iname = self.bound_method(kw["initializer"], env, "the initializer")
        im = METHODS[iname]
        if im.static or im.varargs or im.ret != "unit":
            raise self.err("initializer of this kind not accepted", ctx)
        ia = kw["initargs"]
        if not isinstance(ia, ast.Tuple) or len(ia.elts) != len(im.params):
            raise self.err("initargs must be a tuple with exactly the parameters of the initializer", ctx)
        iterms = []
        for e, ty in zip(ia.elts, im.params):
            t, tt = self.ex(e, env, ty)
            iterms.append(self.coerce(t, tt, ty, e))
        w = "w_" + var.id
        self.add_bind(("res", w, f"rt_pool St {p} (fun g => {coqname(iname)} {' '.join([recv] + iterms)} g) {self.state(s)}"), s)
        # the body: <results> = <pool>.starmap(recv.f, [(..) for i in range(n)])
        if len(s.body) != 1:
            raise self.err("the pool block must consist of the starmap assignment", s)
        st = s.body[0]
        if not (isinstance(st, ast.Assign) and len(st.targets) == 1 and isinstance(st.targets[0], ast.Name)
                and isinstance(st.value, ast.Call) and isinstance(st.value.func, ast.Attribute)
                and isinstance(st.value.func.value, ast.Name) and st.value.func.value.id == var.id
                and st.value.func.attr == "starmap"):
            raise self.err("expected `<results> = <pool>.starmap(..)`", st)
        f_node, lc = self.plain_args(st.value, 2, "starmap")
        frecv, fname = self.bound_method(f_node, env, "the task function")
        fm = METHODS[fname]
        if fm.varargs:
            raise self.err("task function with *args not accepted", st)
        if not (isinstance(lc, ast.ListComp) and len(lc.generators) == 1 and not lc.generators[0].ifs
                and not lc.generators[0].is_async and isinstance(lc.generators[0].target, ast.Name)
                and isinstance(lc.elt, ast.Tuple)):
            raise self.err("the tasks must be `[(..) for <i> in range(n)]`", lc)
        gen = lc.generators[0]
        n_t = self.range_arg(gen.iter, env)
        if gen.target.id in env:
            raise self.err("the comprehension variable shadows a local", lc)
        ivar = "v_" + gen.target.id
        enve = self.bind(env, gen.target.id, ivar, "Z")
        if len(lc.elt.elts) != len(fm.params):
            raise self.err(f"task tuple of {len(lc.elt.elts)} elements for the {len(fm.params)} parameters of {fname}", lc)
        k = len(self.binds)
        elts = []
        for e, ty in zip(lc.elt.elts, fm.params):
            t, tt = self.ex(e, enve, ty)
            elts.append(self.coerce(t, tt, ty, e))
        if len(self.binds) != k:
            raise self.err("a task tuple element that may raise: not accepted", lc)
        tn = [f"t_{i}" for i in range(len(elts))]
        call = " ".join(([] if fm.static else [frecv]) + tn)
        if fm.ret != "K":
            raise self.err("task function must return a number", st)
        res = st.targets[0].id
        self.add_bind(("res", "v_" + res, f"rt_starmap St (fun {pat(tn)} g => {coqname(fname)} {call} g) "
                                          f"(map (fun {ivar} => {tup(elts)}) (rt_range {n_t})) {w}"), st)
        b = self.binds
        return self.wrap(b, nxt(self.bind(env, res, "v_" + res, "samples")))

    # ------------------------------------------------------------------ the method
    def method(self):
        info, m = self.info, self.m
        env = {}
        params = []
        if not m.static and self.name != "__init__":
            params.append("(self : jself)")
        if not m.static:
            env[info.selfname] = ("self", "self")
        for nm, ty in zip(info.pnames, m.params):
            env[nm] = ("v_" + nm, ty)
            params.append(f"(v_{nm} : {COQ_TY[ty]})")
        if m.varargs:
            env[info.vararg] = ("v_" + info.vararg, "args")
            env[info.kwarg] = ("v_" + info.kwarg, "kwargs")
            params += [f"(v_{info.vararg} : Args)", f"(v_{info.kwarg} : Kwargs)"]
        body = self.block(strip_doc(info.fdef.body), env, info.fdef)
        if self.name == "__init__":
            body = "let self := jk_empty in\n" + body
        sig = ast.unparse(info.fdef.args)
        return (f"(* def {self.name}({sig}) *)\n#[using=\"All\"]\nDefinition {coqname(self.name)} {' '.join(params)} (g : St) "
                f": result ({COQ_TY[m.ret]} * St) :=\n{body}.\n\n")


def default_term(node, ty, name, path):
    if ty != "pyval":
        raise TranslateError(f"{name}: default of a parameter of type {ty}", node, path)
    if isinstance(node, ast.Constant) and node.value is None:
        return "VNone"
    if is_numlit(node):
        v = numlit_value(node)
        if isinstance(v, int):
            return f"(VInt {zlit(v)})"
        if v == v and v not in (float("inf"), float("-inf")):
            return f"(VFloat {qlit(Fraction(v))})"
    raise TranslateError(f"{name}: default not accepted: {ast.unparse(node)}", node, path)


def generate():
    tree, path = parse(SRC)
    cls = find_class(tree, "Jackknife")
    table = {name: Info(name, find_func(cls, name), path) for name in METHODS}
    out = [HEADER,
           "From Coq Require Import List ZArith QArith Qround Bool.\n"
           "From SX Require Import Lib.Py Lib.KRing Model.JackknifeRt.\nImport ListNotations.\n\n"]
    # defaults
    for name, info in table.items():
        for i, d in enumerate(info.defaults):
            if d is None:
                continue
            ty = METHODS[name].params[i]
            if ty == "fun":
                if ast.unparse(d) not in ("np.mean", "numpy.mean"):
                    raise TranslateError(f"{name}: the default statistic must be np.mean", d, path)
                out.append(f"(* {name}: {info.pnames[i]} = {ast.unparse(d)} (the statistic is an argument of the translation) *)\n")
                continue
            out.append(f"Definition {info.default_name(i)} : pyval := {default_term(d, ty, name, path)}.\n")
    out.append("\nSection Methods.\n"
               "Variable K : Type.\n"
               "Variables (k0 k1 : K) (kadd kmul ksub kdiv : K -> K -> K) (kopp ksqrt : K -> K).\n"
               "Variable is_number : K -> bool.\n"
               "Variable St : Type.\n"
               "Variable reseed : Z -> St.\n"
               "Variable draw : St -> nat -> nat -> list nat * St.\n"
               "Variables A Args Kwargs : Type.\n"
               "Variable cpu_count : pyval.\n\n")
    texts, deps = {}, {}
    for name in METHODS:
        tr = Tr(name, table, path)
        texts[name] = tr.method()
        deps[name] = tr.callees
    done, active = [], []

    def visit(name):
        if name in done:
            return
        if name in active:
            raise TranslateError("call cycle through " + name, table[name].fdef, path)
        active.append(name)
        for d in deps[name]:
            visit(d)
        active.remove(name)
        done.append(name)

    for name in METHODS:
        visit(name)
    out += [texts[name] for name in done]
    out.append("End Methods.\n")
    return "".join(out)


def main(outdir):
    return write_if_changed(outdir + "/GenJackknifeMethods.v", generate())

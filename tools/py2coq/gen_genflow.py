"""Gen/GenGenFlow.v: what the file writers of sparkx.flow.GenerateFlow (`generate_dummy_OSCAR_file*`,
`generate_dummy_JETSCAPE_file*`) put into their output file, as Coq data (fail-closed).

For every public method of class GenerateFlow that opens a file the extractor accepts exactly this shape

    <argument guards: `if <test>: raise <Error>(...)`>          (one of them must be
                                                                 `number_events < 1 or multiplicity < 1`)
    rd.seed(seed)
    <name> = <numeric literal>                                  (the constants mass, pdg, status, temperature)
    with open(output_path, "w") as output:
        output.write(<str literal>) ...                         file header writes
        for event in range(number_events):
            <statements that do not touch `output`>             sampling calls, reaction-plane assignment
            output.write(f"...{event}...{multiplicity}...")     event header write(s)
            for particle in range(multiplicity):
                <name> = <expression without `output`>
                output.write("<%g/%d format>" % (<args>))       exactly one row write
            <statements that do not touch `output`>             self.px_.clear() ...
            output.write(f"...")                                event footer write(s) (Oscar)
        output.write(<str literal>) ...                         trailer writes (JETSCAPE)

and aborts (TranslateError) on anything else.  Written text is emitted at character level as a list of
pieces  Lit text | Hole name | Arg k  (Arg k = the k-th %-argument of the row write); a %-argument that is a
numeric literal or one of the method's constants is folded with Python's own `%` operator into a Lit, a
%-argument that varies (loop index, energy, momentum component) stays a Hole.  Holes of the f-strings are
`event`, `event+1`, `multiplicity` (loop index of the event loop plus a literal offset / the int parameter)."""
import ast, re
from .core import *

OUTPUTS = ["GenGenFlow"]
SRC = "src/sparkx/flow/GenerateFlow.py"
OUT = "output"          # name the file object must be bound to
GUARD = "number_events < 1 or multiplicity < 1"


def mentions(node, name):
    return any(isinstance(n, ast.Name) and n.id == name for n in ast.walk(node))


def coq_string(s, node, path):
    """a Coq term for the text s: printable ASCII literally, newline and tab by name"""
    parts, cur = [], ""
    for ch in s:
        if ch in "\n\t":
            if cur:
                parts.append('"' + cur.replace('"', '""') + '"')
                cur = ""
            parts.append("nl" if ch == "\n" else "tab")
        elif 32 <= ord(ch) < 127:
            cur += ch
        else:
            raise TranslateError(f"character {ch!r} in written text not accepted", node, path)
    if cur or not parts:
        parts.append('"' + cur.replace('"', '""') + '"')
    return parts


def lit_pieces(s, node, path):
    return [f"Lit {p}" for p in coq_string(s, node, path)] if s != "" else []


def is_write(st):
    return (isinstance(st, ast.Expr) and isinstance(st.value, ast.Call)
            and isinstance(st.value.func, ast.Attribute) and st.value.func.attr == "write"
            and isinstance(st.value.func.value, ast.Name) and st.value.func.value.id == OUT)


def write_arg(st, path):
    c = st.value
    if len(c.args) != 1 or c.keywords:
        raise TranslateError("output.write with other than one positional argument", st, path)
    return c.args[0]


def const_text(arg, st, path):
    if isinstance(arg, ast.Constant) and isinstance(arg.value, str):
        return lit_pieces(arg.value, st, path)
    raise TranslateError("header/trailer write is not a string literal: " + ast.unparse(arg)[:80], st, path)


def hole_name(expr, evvar, st, path):
    if isinstance(expr, ast.Name) and expr.id == evvar:
        return "event"
    if isinstance(expr, ast.Name) and expr.id == "multiplicity":
        return "multiplicity"
    if (isinstance(expr, ast.BinOp) and isinstance(expr.op, ast.Add) and isinstance(expr.left, ast.Name)
            and expr.left.id == evvar and isinstance(expr.right, ast.Constant)
            and type(expr.right.value) is int and expr.right.value >= 0):
        return f"event+{expr.right.value}" if expr.right.value else "event"
    raise TranslateError("f-string hole not accepted: " + ast.unparse(expr), st, path)


def fstring_pieces(arg, evvar, st, path):
    if isinstance(arg, ast.Constant) and isinstance(arg.value, str):
        return lit_pieces(arg.value, st, path)
    if not isinstance(arg, ast.JoinedStr):
        raise TranslateError("event header/footer write is neither a literal nor an f-string: "
                             + ast.unparse(arg)[:80], st, path)
    out = []
    for v in arg.values:
        if isinstance(v, ast.Constant) and isinstance(v.value, str):
            out += lit_pieces(v.value, st, path)
        elif isinstance(v, ast.FormattedValue):
            if v.conversion != -1 or v.format_spec is not None:
                raise TranslateError("f-string conversion/format spec not accepted", st, path)
            out.append(f'Hole "{hole_name(v.value, evvar, st, path)}"')
        else:
            raise TranslateError("f-string part not accepted", st, path)
    return out


CONV = re.compile(r"%(.)")


def row_pieces(arg, pvar, consts, loop_names, st, path):
    """"<fmt>" % (<args>)  ->  (pieces with Arg k, [(conv, source piece)])"""
    if not (isinstance(arg, ast.BinOp) and isinstance(arg.op, ast.Mod) and isinstance(arg.left, ast.Constant)
            and isinstance(arg.left.value, str) and isinstance(arg.right, ast.Tuple)):
        raise TranslateError("row write is not '<format literal>' % (<tuple>): " + ast.unparse(arg)[:80], st, path)
    fmt, args = arg.left.value, arg.right.elts
    pieces, convs, pos = [], [], 0
    for m in CONV.finditer(fmt):
        if m.group(1) not in "gd":
            raise TranslateError(f"conversion %{m.group(1)} not accepted", st, path)
        pieces += lit_pieces(fmt[pos:m.start()], st, path)
        pieces.append(f"Arg {len(convs)}")
        convs.append("%" + m.group(1))
        pos = m.end()
    pieces += lit_pieces(fmt[pos:], st, path)
    if len(convs) != len(args):
        raise TranslateError(f"{len(convs)} conversions for {len(args)} arguments", st, path)
    rowargs = []
    for conv, a in zip(convs, args):
        val = None
        if isinstance(a, ast.Constant) and type(a.value) in (int, float):
            val = a.value
        elif isinstance(a, ast.Name) and a.id in consts:
            val = consts[a.id]
        if val is not None:
            if conv == "%d" and type(val) is not int:
                raise TranslateError(f"%d of the non-integer constant {val!r}", st, path)
            text = conv % val                       # Python's own formatting of a literal constant
            if not re.fullmatch(r"[0-9+\-.e]+", text):
                raise TranslateError(f"folded constant {text!r} is not a plain number", st, path)
            src = f'Lit "{text}"'
        elif isinstance(a, ast.Name) and a.id == pvar:
            if conv != "%d":
                raise TranslateError("particle index not written with %d", st, path)
            src = 'Hole "particle"'
        elif isinstance(a, ast.Name) and a.id in loop_names:
            if conv != "%g":
                raise TranslateError(f"{a.id} not written with %g", st, path)
            src = f'Hole "{a.id}"'
        elif (isinstance(a, ast.Subscript) and isinstance(a.value, ast.Attribute)
              and isinstance(a.value.value, ast.Name) and a.value.value.id == "self"
              and isinstance(a.slice, ast.Name) and a.slice.id == pvar):
            if conv != "%g":
                raise TranslateError(f"{ast.unparse(a)} not written with %g", st, path)
            if not re.fullmatch(r"[A-Za-z_][A-Za-z_0-9]*", a.value.attr):
                raise TranslateError("attribute name not accepted", st, path)
            src = f'Hole "{a.value.attr}"'
        else:
            raise TranslateError("row argument not accepted: " + ast.unparse(a), st, path)
        rowargs.append((conv, src))
    return pieces, rowargs


def range_of(node, what, st, path):
    if not (isinstance(node, ast.For) and isinstance(node.target, ast.Name) and not node.orelse
            and ast.unparse(node.iter) == f"range({what})"):
        raise TranslateError(f"expected `for <name> in range({what})`", st, path)
    return node.target.id


def quiet(st, path, where):
    """a statement that cannot write to the file: it does not mention `output` at all"""
    if mentions(st, OUT):
        raise TranslateError(f"statement {where} uses `{OUT}` in a shape that is not accepted: "
                             + ast.unparse(st)[:80], st, path)
    if not isinstance(st, (ast.Expr, ast.Assign, ast.If)):
        raise TranslateError(f"statement kind {type(st).__name__} {where} not accepted", st, path)
    for n in ast.walk(st):
        if isinstance(n, (ast.For, ast.While, ast.With, ast.Return, ast.Break, ast.Continue, ast.Try, ast.Raise,
                          ast.Lambda, ast.FunctionDef, ast.Yield, ast.Await, ast.Global, ast.Nonlocal)):
            raise TranslateError(f"{type(n).__name__} {where} not accepted", st, path)
        if isinstance(n, ast.Name) and n.id in ("open", "print", "exec", "eval"):
            raise TranslateError(f"call of {n.id} {where} not accepted", st, path)


def writer(f, path):
    body = strip_doc(f.body)
    consts, guard_seen, i = {}, False, 0
    params = [a.arg for a in f.args.args]
    for need in ("self", "output_path", "number_events", "multiplicity", "seed"):
        if need not in params:
            raise TranslateError(f"{f.name}: parameter {need} missing", f, path)
    # ---- prologue
    while i < len(body) and not isinstance(body[i], ast.With):
        st = body[i]
        if isinstance(st, ast.If):
            if st.orelse or len(st.body) != 1 or not isinstance(st.body[0], ast.Raise) or mentions(st, OUT):
                raise TranslateError("guard is not `if <test>: raise ...`", st, path)
            if ast.unparse(st.test) == GUARD:
                exc = st.body[0].exc
                if not (isinstance(exc, ast.Call) and isinstance(exc.func, ast.Name) and exc.func.id == "ValueError"):
                    raise TranslateError("size guard does not raise ValueError", st, path)
                guard_seen = True
        elif isinstance(st, ast.Expr) and ast.unparse(st.value) == "rd.seed(seed)":
            pass
        elif (isinstance(st, ast.Assign) and len(st.targets) == 1 and isinstance(st.targets[0], ast.Name)
              and isinstance(st.value, ast.Constant) and type(st.value.value) in (int, float)):
            name = st.targets[0].id
            if name in consts or name in params:
                raise TranslateError(f"{name} assigned twice", st, path)
            consts[name] = st.value.value
        else:
            raise TranslateError("statement before the file is opened not accepted: " + ast.unparse(st)[:80], st, path)
        i += 1
    if not guard_seen:
        raise TranslateError(f"{f.name}: guard `{GUARD}` not found", f, path)
    if i != len(body) - 1:
        raise TranslateError(f"{f.name}: `with open(...)` must be the last statement", f, path)
    w = body[i]
    if (len(w.items) != 1 or ast.unparse(w.items[0].context_expr) != "open(output_path, 'w')"
            or not isinstance(w.items[0].optional_vars, ast.Name) or w.items[0].optional_vars.id != OUT):
        raise TranslateError("file is not opened as `with open(output_path, 'w') as output`", w, path)
    # ---- header writes, event loop, trailer writes
    header, trailer, loop = [], [], None
    for st in w.body:
        if is_write(st):
            (header if loop is None else trailer).append(const_text(write_arg(st, path), st, path))
        elif isinstance(st, ast.For) and loop is None:
            loop = st
        else:
            raise TranslateError("statement inside `with` not accepted: " + ast.unparse(st)[:80], st, path)
    if loop is None:
        raise TranslateError(f"{f.name}: no event loop", w, path)
    evvar = range_of(loop, "number_events", loop, path)
    if evvar in consts or evvar in params:
        raise TranslateError("event loop variable shadows a name", loop, path)
    pre, post, ploop = [], [], None
    for st in loop.body:
        if is_write(st):
            (pre if ploop is None else post).append(fstring_pieces(write_arg(st, path), evvar, st, path))
        elif isinstance(st, ast.For):
            if ploop is not None:
                raise TranslateError("second inner loop", st, path)
            ploop = st
        else:
            quiet(st, path, "in the event loop")
            for n in ast.walk(st):          # the loop index, the sizes and the constants must stay what they are
                if isinstance(n, ast.Name) and isinstance(n.ctx, ast.Store) and (n.id in consts or n.id in params
                                                                                   or n.id == evvar):
                    raise TranslateError(f"{n.id} reassigned in the event loop", st, path)
    if ploop is None:
        raise TranslateError(f"{f.name}: no particle loop", loop, path)
    pvar = range_of(ploop, "multiplicity", ploop, path)
    if pvar in consts or pvar in params or pvar == evvar:
        raise TranslateError("particle loop variable shadows a name", ploop, path)
    row, rowargs, loop_names = None, None, set()
    for st in ploop.body:
        if is_write(st):
            if row is not None:
                raise TranslateError("second row write", st, path)
            row, rowargs = row_pieces(write_arg(st, path), pvar, consts, loop_names, st, path)
        elif (isinstance(st, ast.Assign) and len(st.targets) == 1 and isinstance(st.targets[0], ast.Name)
              and row is None):
            name = st.targets[0].id
            if name in consts or name in params or name in (evvar, pvar, OUT):
                raise TranslateError(f"{name} reassigned in the particle loop", st, path)
            quiet(st, path, "in the particle loop")
            loop_names.add(name)
        else:
            raise TranslateError("statement in the particle loop not accepted: " + ast.unparse(st)[:80], st, path)
    if row is None:
        raise TranslateError(f"{f.name}: no row write", ploop, path)
    if "OSCAR" in f.name and "JETSCAPE" not in f.name:
        family = "Oscar2013"
    elif "JETSCAPE" in f.name and "OSCAR" not in f.name:
        family = "JETSCAPE"
    else:
        raise TranslateError(f"{f.name}: cannot tell the file family from the method name", f, path)
    return {"name": f.name, "family": family, "header": header, "pre": pre, "row": row, "rowargs": rowargs,
            "post": post, "trailer": trailer}


def opens_file(f):
    return any(isinstance(n, ast.Name) and n.id == "open" for n in ast.walk(f)) or \
        any(isinstance(n, ast.Attribute) and n.attr in ("write", "writelines", "savetxt", "tofile") for n in ast.walk(f))


def extract():
    tree, path = parse(SRC)
    cls = find_class(tree, "GenerateFlow")
    out = []
    for n in cls.body:
        if isinstance(n, ast.FunctionDef) and opens_file(n):
            if n.name.startswith("_"):
                raise TranslateError(f"private method {n.name} writes a file", n, path)
            out.append(writer(n, path))
    if not out:
        raise TranslateError("no file writer found in GenerateFlow")
    return out


def pl(pieces):
    return "[" + "; ".join(pieces) + "]"


def generate():
    ws = extract()
    out = [HEADER, "From Coq Require Import List String Ascii.\nImport ListNotations.\nLocal Open Scope string_scope.\n",
           "(* text written to the file, character level: literal text, a hole filled per event / per particle,\n"
           "   the k-th %-argument of the row write *)\n",
           "Inductive piece := Lit (s : string) | Hole (name : string) | Arg (k : nat).\n",
           'Definition nl : string := String "010"%char EmptyString.\n',
           'Definition tab : string := String "009"%char EmptyString.\n',
           "Record rowarg := { a_conv : string; a_src : piece }.\n",
           "Record writer := { w_name : string; w_family : string; w_min_events : nat; w_min_mult : nat;\n"
           "  w_header : list (list piece); w_event_pre : list (list piece); w_row : list piece;\n"
           "  w_row_args : list rowarg; w_event_post : list (list piece); w_trailer : list (list piece) }.\n",
           "Definition gen_writers : list writer := [\n"]
    items = []
    for w in ws:
        items.append(
            f'  {{| w_name := "{w["name"]}"; w_family := "{w["family"]}"; w_min_events := 1; w_min_mult := 1;\n'
            f'     w_header := {pl([pl(h) for h in w["header"]])};\n'
            f'     w_event_pre := {pl([pl(h) for h in w["pre"]])};\n'
            f'     w_row := {pl(w["row"])};\n'
            f'     w_row_args := {pl(["{| a_conv := " + chr(34) + c + chr(34) + "; a_src := " + s + " |}" for c, s in w["rowargs"]])};\n'
            f'     w_event_post := {pl([pl(h) for h in w["post"]])};\n'
            f'     w_trailer := {pl([pl(h) for h in w["trailer"]])} |}}')
    out.append(";\n".join(items) + "\n].\n")
    return "".join(out)


def main(outdir):
    return write_if_changed(outdir + "/GenGenFlow.v", generate())

"""Gen/GenPObj.v (C02, particle-object part): the method bodies through which `ParticleObjectStorer(evs, events=..,
filters=..)` is built, translated statement by statement from the CURRENT source into Gallina over Model/PObjRt.v
(a dynamically typed Python fragment: objects are attribute dictionaries).  Proofs/PObj_Source.v proves the hand model
Model/PObj.v equal to what is generated here.

  loader/ParticleObjectLoader.py  ParticleObjectLoader.__init__ / load / set_num_output_per_event / set_particle_list
  loader/BaseLoader.py            BaseLoader._check_that_tuple_contains_integers_only
  BaseStorer.py                   BaseStorer.__init__   (create the loader, take over the tuple that load() returns)
  ParticleObjectStorer.py         ParticleObjectStorer.__init__ / create_loader / _particle_as_list / _update_after_merge

Conventions of the translation
  * every method becomes  gen_<Class>_<method> (self : val) (<parameters in order> : val) : result (val * val):
    the object after the call and the returned value (VNone when the body falls off its end / `return`).  A `**kwargs`
    parameter is one more parameter (the dictionary).
  * statements in order; `if/elif/else` joins and `for` loops (a fold over the loop-carried variables) are the
    machinery of pyfrag.Translator (as used by gen_storer); `raise C(..)` is `Err C`; exceptions of the run-time
    operations propagate.
  * `o.a` reads py_getattr, `o.a = v` / `del o.a` rebuild the object (py_setattr / py_delattr; Python's order: the
    right-hand side first); `o.a.append(x)` is `o.a = o.a + [x]` - accepted only when the same method has assigned
    `o.a = []` before (no alias of the list can exist).
  * a call `self.m(..)`, `super().m(..)` or `self.a.m(..)` is accepted as a statement of its own, as the whole
    right-hand side of an assignment, as the returned value or as the FIRST item of a returned tuple (nothing is
    evaluated before it); it threads the receiver: `p <- gen_C_m recv args ;; recv := fst p ;; value := snd p`.
    `self.m` resolves through the class hierarchy of the leaf class being built ([ParticleObjectLoader, BaseLoader],
    [ParticleObjectStorer, BaseStorer]; the bases are checked), `super().m` to the next class, `self.a.m` by the
    class tag of the receiver at run time (gen_dyn_<m>).  `f(.., **d)`: py_starstar d <named parameters of f>.
  * `C(args)` for a translated class C: gen_new_C = C.__init__ on an object without attributes.
  * `(t1, .., tn) = e`: py_unpack e n, then the targets left to right.
  * list comprehensions with one `for` and no `if` are mapM; `all(c for x in it)` is forallM;
    `np.array(<list>, dtype=int).reshape(-1, 2)` is the single run-time function py_array_int_m1_2 (this call shape
    is matched structurally, any other dtype / shape argument aborts).
  * harmless variation accepted: renamed locals, annotations, docstrings, message texts, reordered independent
    statements.

Oracles (Section variables of the generated file)
  * flt : list (list P) -> val -> result (list (list P)) - `self.__apply_kwargs_filters(x, fd)`; the chain itself is
    translated by gen_dispatch.py (Gen/GenDispatch.v, C05), where it is a function of exactly these two arguments.
    Checked here: ParticleObjectLoader defines `__apply_kwargs_filters(self, event, filters_dict)`.
  * pattr : P -> string -> result val - reading attribute `a` of a Particle object (a parameter annotated "Particle").

Pinned textually: nothing.  Checked structurally (fail-closed): base classes, no attribute hooks / slots / metaclass /
decorators on translated methods, no method defined twice, no data attribute that is also a method name, no
module-level or star-imported rebinding of the builtins the fragment relies on.

Fail-closed: any statement or expression shape that is not listed raises TranslateError with the source location.
"""
import ast
from .core import *
from . import pyfrag, gen_storer
from .pyfrag import V, Var, cname, zlit, slit

OUTPUTS = ["GenPObj"]

FILTER = "src/sparkx/Filter.py"
CLASSES = {   # class -> (file, expected bases, hierarchy (MRO restricted to sparkx classes))
    "ParticleObjectLoader": ("src/sparkx/loader/ParticleObjectLoader.py", ["BaseLoader"], ["ParticleObjectLoader", "BaseLoader"]),
    "BaseLoader": ("src/sparkx/loader/BaseLoader.py", ["ABC"], ["ParticleObjectLoader", "BaseLoader"]),
    "ParticleObjectStorer": ("src/sparkx/ParticleObjectStorer.py", ["BaseStorer"], ["ParticleObjectStorer", "BaseStorer"]),
    "BaseStorer": ("src/sparkx/BaseStorer.py", ["ABC"], ["ParticleObjectStorer", "BaseStorer"]),
}
LEAVES = ["ParticleObjectLoader", "ParticleObjectStorer"]
ROOTS = [("ParticleObjectLoader", "__init__"), ("ParticleObjectLoader", "load"),
         ("ParticleObjectStorer", "__init__"), ("ParticleObjectStorer", "create_loader"),
         ("ParticleObjectStorer", "_particle_as_list"), ("ParticleObjectStorer", "_update_after_merge")]
ORACLE = "__apply_kwargs_filters"
ORACLE_PARAMS = ["self", "event", "filters_dict"]
BUILTIN_METHODS = {"keys", "get", "append", "reshape"}
BUILTINS_USED = {"len", "isinstance", "all", "range", "enumerate", "super", "tuple", "list", "int", "np",
                 "TypeError", "ValueError", "IndexError", "KeyError", "AttributeError", "ZeroDivisionError"}
HOOKS = {"__getattr__", "__getattribute__", "__setattr__", "__delattr__", "__slots__", "__new__", "__init_subclass__",
         "__class_getitem__", "__set_name__"}
ISINSTANCE = {"list": "T_list", "tuple": "T_tuple", "int": "T_int"}
RESERVED = {"val", "fst", "snd", "P", "flt", "pattr", "rbind", "rmap", "mapM", "fold_leftM", "forallM", "existsM", "andM",
            "orM", "notM", "pyget", "lookup", "update", "remove_key", "str_mem", "zlen", "zrange", "pyslice", "slice_idx",
            "pairs", "opt_all", "same_lengths", "of_ev", "of_evs", "as_p", "as_ev", "as_evs", "as_int", "non_number",
            "int_row", "pv", "pty", "errcls", "negb", "andb", "orb", "string", "Z", "seq", "combine", "cons", "nil", "pair"}
PRIMS = {"__nil__", "__setattr__", "__delattr__", "__append__", "__callm__", "__calldyn__", "__fst__", "__snd__",
         "__unpack__", "__ret__"}


def coq_method(cls, meth):
    return f"gen_{cls}_{meth.strip('_')}"


prim, assign, load = gen_storer.prim, gen_storer.assign, gen_storer.load


def const(v, at):
    return ast.copy_location(ast.Constant(value=v), at)


class Nil(ast.NodeTransformer):
    """[] becomes a primitive (pyfrag treats the empty list literal in its own typed way)"""
    def visit_List(self, node):
        if isinstance(node.ctx, ast.Load) and not node.elts:
            return prim("__nil__", [], node)
        return self.generic_visit(node)


# --------------------------------------------------------------------------------------- the classes
class Ctx:
    """the parsed classes, method resolution, and the definitions generated so far (callee before caller)"""
    def __init__(self):
        self.cls, self.meths, self.path = {}, {}, {}
        self.done, self.busy, self.out = {}, set(), []
        self.news, self.dyns = {}, {}
        self.attrs_used = set()
        star_ok = self.filter_exports()
        for name, (rel, bases, hier) in CLASSES.items():
            tree, path = parse(rel)
            self.check_module(tree, path, star_ok)
            c = find_class(tree, name)
            if [ast.unparse(b) for b in c.bases] != bases or c.keywords or c.decorator_list:
                raise TranslateError(f"{name}: bases / metaclass / decorators changed (expected bases {bases})", c, path)
            ms = {}
            for n in c.body:
                if isinstance(n, ast.FunctionDef):
                    if n.name in ms:
                        raise TranslateError(f"{name}.{n.name} is defined twice", n, path)
                    if n.name in HOOKS:
                        raise TranslateError(f"{name} defines {n.name}: attribute access is no longer a dictionary", n, path)
                    ms[n.name] = n
                elif isinstance(n, ast.AnnAssign) and n.value is None and isinstance(n.target, ast.Name):
                    pass        # a bare class-level annotation binds nothing
                elif isinstance(n, ast.Expr) and isinstance(n.value, ast.Constant) and isinstance(n.value.value, str):
                    pass
                else:
                    raise TranslateError(f"{name}: class body statement not accepted: {type(n).__name__}", n, path)
            self.cls[name], self.meths[name], self.path[name] = c, ms, path
        f = self.meths["ParticleObjectLoader"].get(ORACLE)
        if f is None or [p.arg for p in f.args.args] != ORACLE_PARAMS or f.args.vararg or f.args.kwarg or f.decorator_list:
            raise TranslateError(f"ParticleObjectLoader.{ORACLE}{tuple(ORACLE_PARAMS)} not found", None, self.path["ParticleObjectLoader"])
        names = set().union(*[set(m) for m in self.meths.values()])
        if names & BUILTIN_METHODS:
            raise TranslateError(f"a class defines {sorted(names & BUILTIN_METHODS)}: clashes with a builtin method of the fragment")
        self.method_names = names

    def filter_exports(self):
        """names that `from sparkx.Filter import *` binds; must not hide a builtin the fragment relies on"""
        tree, path = parse(FILTER)
        bound = set()
        for n in tree.body:
            if isinstance(n, (ast.FunctionDef, ast.ClassDef, ast.AsyncFunctionDef)):
                bound.add(n.name)
            elif isinstance(n, (ast.Import, ast.ImportFrom)):
                for a in n.names:
                    if a.name == "*":
                        raise TranslateError("Filter.py: star import", n, path)
                    if (a.asname or a.name.split(".")[0]) == "np" and not (isinstance(n, ast.Import) and a.name == "numpy"):
                        raise TranslateError("Filter.py: np is not numpy", n, path)
                    bound.add(a.asname or a.name.split(".")[0])
            elif isinstance(n, ast.Expr) and isinstance(n.value, ast.Constant):
                pass
            else:
                for x in ast.walk(n):
                    if isinstance(x, ast.Name) and isinstance(x.ctx, (ast.Store, ast.Del)):
                        bound.add(x.id)
        bad = {b for b in bound if not b.startswith("_")} & (BUILTINS_USED - {"np"})
        if bad or "__all__" in bound:
            raise TranslateError(f"Filter.py exports {sorted(bad) or '__all__'}: the star import would rebind a builtin", None, path)
        return True

    def check_module(self, tree, path, star_ok):
        for n in tree.body:
            if isinstance(n, ast.ClassDef):
                if n.name in BUILTINS_USED:
                    raise TranslateError(f"module defines {n.name}", n, path)
            elif isinstance(n, (ast.Import, ast.ImportFrom)):
                for a in n.names:
                    nm = a.asname or a.name.split(".")[0]
                    if a.name == "*":
                        if not (isinstance(n, ast.ImportFrom) and n.module == "sparkx.Filter" and star_ok):
                            raise TranslateError("star import from an unchecked module", n, path)
                    elif nm == "np":
                        if not (isinstance(n, ast.Import) and a.name == "numpy"):
                            raise TranslateError("np is not numpy", n, path)
                    elif nm in BUILTINS_USED:
                        raise TranslateError(f"import rebinds {nm}", n, path)
            elif isinstance(n, ast.Expr) and isinstance(n.value, ast.Constant) and isinstance(n.value.value, str):
                pass
            else:
                raise TranslateError(f"module-level statement not accepted: {type(n).__name__}", n, path)

    # ---- resolution
    def resolve(self, hier, meth, after=None):
        """first class of the hierarchy (after class `after`) that defines meth"""
        seq = hier if after is None else hier[hier.index(after) + 1:]
        for c in seq:
            if meth in self.meths[c]:
                return c
        return None

    def hier_of(self, cls):
        return CLASSES[cls][2]

    def signature(self, cls, meth):
        f = self.meths[cls][meth]
        a = f.args
        if a.vararg or a.kwonlyargs or a.posonlyargs or a.defaults or a.kw_defaults or f.decorator_list:
            raise TranslateError(f"{cls}.{meth}: signature / decorator not accepted", f, self.path[cls])
        names = [p.arg for p in a.args]
        if not names or names[0] != "self":
            raise TranslateError(f"{cls}.{meth}: first parameter must be self", f, self.path[cls])
        return names, (a.kwarg.arg if a.kwarg else None)

    def need(self, cls, meth):
        """generate (once) the definition of cls.meth; returns its Coq name"""
        key = (cls, meth)
        if key in self.done:
            return self.done[key]
        if key in self.busy:
            raise TranslateError(f"{cls}.{meth}: recursive call chain", self.meths[cls][meth], self.path[cls])
        self.busy.add(key)
        name = coq_method(cls, meth)
        text = Tr(self, cls).method(self.meths[cls][meth], name)
        self.busy.discard(key)
        self.done[key] = name
        self.out.append(f"(* {cls}.{meth} *)\n{text}\n")
        return name

    def need_new(self, cls):
        if cls in self.news:
            return self.news[cls]
        owner = self.resolve(self.hier_of(cls), "__init__")
        if owner is None or cls not in LEAVES:
            raise TranslateError(f"{cls}: constructor of this class not accepted")
        init = self.need(owner, "__init__")
        names, kw = self.signature(owner, "__init__")
        ps = [cname(n) for n in names[1:]] + ([cname(kw)] if kw else [])
        name = f"gen_new_{cls}"
        self.out.append(f"(* {cls}(..): {owner}.__init__ on an object without attributes *)\n"
                        f"Definition {name} ({' '.join(ps)} : val) : result val :=\n"
                        f"  p <- {init} (VObj {slit(cls)} []) {' '.join(ps)} ;; Ok (fst p).\n\n")
        self.news[cls] = (name, len(names) - 1, kw is not None)
        return self.news[cls]

    def need_dyn(self, meth):
        """o.m(args, **d) for an object o held in an attribute: dispatch on the class tag"""
        if meth in self.dyns:
            return self.dyns[meth]
        cands = []
        for leaf in LEAVES:
            owner = self.resolve(self.hier_of(leaf), meth)
            if owner is not None:
                f = self.meths[owner][meth]
                if "abstractmethod" in [ast.unparse(d) for d in f.decorator_list]:
                    continue
                cands.append((leaf, owner))
        if not cands:
            raise TranslateError(f"no translated class has a method {meth}")
        shapes = set()
        branches = ""
        for leaf, owner in cands:
            coq = self.need(owner, meth)
            names, kw = self.signature(owner, meth)
            shapes.add((len(names) - 1, kw is not None))
            args = " ".join(f"a{i}" for i in range(len(names) - 1))
            if kw:
                call = (f"(kw <- py_starstar d [{'; '.join(slit(n) for n in names)}] ;; {coq} o {args} kw)")
            else:
                call = f"({coq} o {args})"
            branches += f"  if String.eqb c {slit(leaf)} then {call} else\n"
        if len(shapes) != 1:
            raise TranslateError(f"method {meth}: the candidate classes have different signatures")
        npos, haskw = shapes.pop()
        params = " ".join(f"a{i}" for i in range(npos)) + (" d" if haskw else "")
        name = f"gen_dyn_{meth.strip('_')}"
        self.out.append(f"(* <object>.{meth}(..): by the class of the object *)\n"
                        f"Definition {name} (o {params} : val) : result (val * val) :=\n  c <- py_class_of o ;;\n"
                        f"{branches}  Err OtherError.\n\n")
        self.dyns[meth] = (name, npos, haskw)
        return self.dyns[meth]


# --------------------------------------------------------------------------------------- desugaring
class D(gen_storer.Desugar):
    """statements of the accepted fragment -> assignments to plain names, if, for, return, raise, pass"""
    def __init__(self, ctx, cls):
        super().__init__(ctx.path[cls])
        self.ctx, self.cls, self.ntmp = ctx, cls, 0
        self.fresh_lists = set()       # `o.a` that this method has assigned `[]` so far (top level)

    def attr_const(self, t):
        if t.attr in self.ctx.method_names:
            self.err(f"attribute {t.attr} is also a method name", t)
        return const(t.attr, t)

    def tmp(self):
        self.ntmp += 1
        return f"tmpcall{self.ntmp}"

    # ---- method calls
    def mcall_kind(self, node):
        if not (isinstance(node, ast.Call) and isinstance(node.func, ast.Attribute)):
            return None
        f = node.func
        if f.attr == ORACLE or f.attr in BUILTIN_METHODS:
            return None
        if isinstance(f.value, ast.Name) and f.value.id == "self":
            return "self"
        if isinstance(f.value, ast.Call) and ast.unparse(f.value) == "super()":
            return "super"
        if self.attr_of_name(f.value) and f.attr in self.ctx.method_names:
            return "dyn"
        return None

    def split_args(self, node):
        ss = None
        for k in node.keywords:
            if k.arg is not None or ss is not None:
                self.err("keyword arguments other than one `**d` not accepted in a method call", node)
            ss = k.value
        for a in node.args:
            if isinstance(a, ast.Starred):
                self.err("starred argument not accepted", node)
        return list(node.args), ss

    def hoist(self, node, st):
        """-> (statements that perform the call and rebind the receiver, expression of the returned value)"""
        kind = self.mcall_kind(node)
        f = node.func
        pos, ss = self.split_args(node)
        t = self.tmp()
        if kind in ("self", "super"):
            hier = self.ctx.hier_of(self.cls)
            owner = self.ctx.resolve(hier, f.attr, after=self.cls if kind == "super" else None)
            if owner is None:
                self.err(f"method {f.attr} not found in {hier}", node)
            fd = self.ctx.meths[owner][f.attr]
            if "abstractmethod" in [ast.unparse(d) for d in fd.decorator_list]:
                self.err(f"{owner}.{f.attr} is abstract", node)
            recv = load("self", st)
            args = [const(owner, st), const(f.attr, st), const(ss is not None, st), recv] + pos + ([ss] if ss is not None else [])
            stmts = [assign(t, prim("__callm__", args, st), st), assign("self", prim("__fst__", [load(t, st)], st), st)]
        else:
            recv = self.as_load(f.value)
            args = [const(f.attr, st), const(ss is not None, st), recv] + pos + ([ss] if ss is not None else [])
            stmts = [assign(t, prim("__calldyn__", args, st), st), self.store(f.value, prim("__fst__", [load(t, st)], st), st)]
        return stmts, prim("__snd__", [load(t, st)], st)

    def store_any(self, target, value, st):
        """target = value, where target may be a tuple of targets"""
        if isinstance(target, (ast.Tuple, ast.List)):
            if any(isinstance(e, ast.Starred) for e in target.elts):
                self.err("starred assignment target not accepted", st)
            t = self.tmp()
            out = [assign(t, prim("__unpack__", [value, const(len(target.elts), st)], st), st)]
            for i, e in enumerate(target.elts):
                item = ast.copy_location(ast.Subscript(value=load(t, st), slice=const(i, st), ctx=ast.Load()), st)
                out += self.store_any(e, ast.fix_missing_locations(item), st)
            return out
        self.note_fresh(target, value)
        return [self.store(target, value, st)]

    def note_fresh(self, target, value):
        if self.attr_of_name(target):
            key = ast.unparse(target)
            if isinstance(value, ast.Call) and isinstance(value.func, ast.Name) and value.func.id == "__nil__":
                self.fresh_lists.add(key)
            else:
                self.fresh_lists.discard(key)

    def block(self, stmts):
        out = []
        for st in stmts:
            out += self.stmt(st)
        return out

    def stmt(self, st):
        if isinstance(st, (ast.Pass, ast.Raise)):
            return [st]
        if isinstance(st, ast.Expr) and isinstance(st.value, ast.Constant) and isinstance(st.value.value, str):
            return []
        if isinstance(st, ast.Return):
            v = st.value if st.value is not None else const(None, st)
            pre = []
            if self.mcall_kind(v):
                pre, v = self.hoist(v, st)
            elif isinstance(v, ast.Tuple) and v.elts and self.mcall_kind(v.elts[0]):
                pre, first = self.hoist(v.elts[0], st)
                v = ast.copy_location(ast.Tuple(elts=[first] + v.elts[1:], ctx=ast.Load()), v)
            r = ast.copy_location(ast.Return(value=prim("__ret__", [load("self", st), v], st)), st)
            return pre + [r]
        if isinstance(st, (ast.Assign, ast.AnnAssign)):
            if isinstance(st, ast.AnnAssign):
                if st.value is None:
                    self.err("annotation without a value", st)
                target = st.target
            else:
                if len(st.targets) != 1:
                    self.err("multiple assignment targets", st)
                target = st.targets[0]
            pre, v = [], st.value
            if self.mcall_kind(v):
                pre, v = self.hoist(v, st)
            return pre + self.store_any(target, v, st)
        if isinstance(st, ast.Delete):
            out = []
            for t in st.targets:
                if not self.attr_of_name(t):
                    self.err("del accepted only on an attribute of a name", st)
                x = t.value.id
                out.append(assign(x, prim("__delattr__", [load(x, st), self.attr_const(t)], st), st))
            return out
        if isinstance(st, ast.Expr) and isinstance(st.value, ast.Call):
            c = st.value
            if self.mcall_kind(c):
                return self.hoist(c, st)[0]
            if isinstance(c.func, ast.Attribute) and c.func.attr == "append" and len(c.args) == 1 and not c.keywords:
                rcv = c.func.value
                if isinstance(rcv, ast.Name):
                    return [assign(rcv.id, prim("__append__", [load(rcv.id, st), c.args[0]], st), st)]
                if self.attr_of_name(rcv):
                    if ast.unparse(rcv) not in self.fresh_lists:
                        self.err(f"{ast.unparse(rcv)}.append: the list was not created (`= []`) by this method before", st)
                    return [self.store(rcv, prim("__append__", [self.as_load(rcv), c.args[0]], st), st)]
            self.err("expression statement not accepted: " + ast.unparse(st)[:70], st)
        if isinstance(st, ast.If):
            keep = set(self.fresh_lists)
            body = self.block(st.body) or [ast.copy_location(ast.Pass(), st)]
            f1 = self.fresh_lists
            self.fresh_lists = set(keep)
            orelse = self.block(st.orelse)
            self.fresh_lists &= f1
            return [ast.copy_location(ast.If(test=st.test, body=body, orelse=orelse), st)]
        if isinstance(st, ast.For):
            if st.orelse:
                self.err("for-else not accepted", st)
            keep = set(self.fresh_lists)
            body = self.block(st.body) or [ast.copy_location(ast.Pass(), st)]
            if keep - self.fresh_lists:
                self.err(f"a list this method appends to is replaced inside the loop: {sorted(keep - self.fresh_lists)}", st)
            self.fresh_lists &= keep
            n = ast.For(target=st.target, iter=st.iter, body=body, orelse=[], type_comment=None)
            return [ast.copy_location(n, st)]
        self.err("statement not accepted: " + type(st).__name__, st)


# --------------------------------------------------------------------------------------- expressions, conditions
class Tr(gen_storer.Tr):
    CMP = {ast.LtE: "py_le", ast.Lt: "py_lt", ast.GtE: "py_ge", ast.Gt: "py_gt", ast.Eq: "py_eq", ast.NotEq: "py_ne",
           ast.In: "py_in", ast.NotIn: "py_not_in"}

    def __init__(self, ctx, cls):
        super().__init__(ctx.path[cls])
        self.ctx, self.cls = ctx, cls
        self.kind = "pure"
        self.particles = set()

    def const(self, node):
        v = node.value
        if v is None:
            return "VNone"
        if isinstance(v, bool):
            return f"(VBool {'true' if v else 'false'})"
        if isinstance(v, int):
            return f"(VInt {zlit(v)})"
        if isinstance(v, str):
            return f"(VStr {slit(v)})"
        self.err("constant not accepted: " + repr(v), node)

    def seq_lit(self, ctor, elts, env):
        parts = []
        for e in elts:
            if isinstance(e, ast.Starred):
                self.err("starred item not accepted", e)
            t, _, mon = self.E(e, env)
            parts.append((t, mon))
        term, mon = self.lift(parts, lambda a: (f"({ctor} [{'; '.join(a)}])", False))
        return term, V, mon

    def E(self, node, env):
        if isinstance(node, ast.Constant):
            return self.const(node), V, False
        if isinstance(node, ast.Name):
            if node.id not in env:
                self.err(f"name {node.id} is not bound here", node)
            v = env[node.id]
            if v.opt:
                return f"(py_unbound {v.name})", V, True
            return v.name, V, False
        if isinstance(node, ast.UnaryOp) and isinstance(node.op, ast.USub) and isinstance(node.operand, ast.Constant) \
                and isinstance(node.operand.value, int) and not isinstance(node.operand.value, bool):
            return self.const(ast.Constant(value=-node.operand.value)), V, False
        if isinstance(node, ast.Attribute):
            if node.attr in self.ctx.method_names or node.attr == ORACLE or node.attr in BUILTIN_METHODS:
                self.err("a method is used as a value: " + ast.unparse(node), node)
            t, _, mon = self.E(node.value, env)
            a = slit(node.attr)
            if isinstance(node.value, ast.Name) and node.value.id in self.particles:
                term, mon = self.lift([(t, mon)], lambda x: (f"(py_pattr pattr {x[0]} {a})", True))
            else:
                self.ctx.attrs_used.add(node.attr)
                term, mon = self.lift([(t, mon)], lambda x: (f"(py_getattr {x[0]} {a})", True))
            return term, V, mon
        if isinstance(node, ast.Subscript):
            s = node.slice
            if isinstance(s, ast.Tuple):
                self.err("index form not accepted: " + ast.unparse(node), node)
            if isinstance(s, ast.Slice):
                if s.lower is None or s.upper is None or s.step is not None:
                    self.err("slice accepted only as x[lo:hi]", node)
                return self.nary("py_slice", [node.value, s.lower, s.upper], env)
            return self.nary("py_getitem", [node.value, s], env)
        if isinstance(node, ast.BinOp):
            if not isinstance(node.op, ast.Add):
                self.err("arithmetic operator not accepted: " + ast.unparse(node), node)
            return self.nary("py_add", [node.left, node.right], env)
        if isinstance(node, ast.List):
            return self.seq_lit("VList", node.elts, env)
        if isinstance(node, ast.Tuple):
            return self.seq_lit("VTuple", node.elts, env)
        if isinstance(node, ast.ListComp):
            if len(node.generators) != 1 or node.generators[0].ifs or node.generators[0].is_async:
                self.err("list comprehension accepted only with one `for` and no `if`", node)
            g = node.generators[0]
            items, imon, elty = self.iter_of(g.iter, env)
            binder, env2 = self.bind_target(g.target, elty, env)
            bt, _, bmon = self.E(node.elt, env2)
            v = self.fresh("l")
            term, mon = self.lift([(items, imon)],
                                  lambda a: (f"({v} <- mapM (fun {binder} => {self.m((bt, bmon))}) {a[0]} ;; Ok (VList {v}))", True))
            return term, V, mon
        if isinstance(node, ast.Call):
            return self.call(node, env)
        self.err("expression not accepted: " + type(node).__name__ + " " + ast.unparse(node)[:60], node)

    def mcall_term(self, coq, recv, pos, ss, names, haskw, env, node):
        """(coq recv pos.. [kwargs])  with Python's evaluation order: receiver, positional arguments, **d"""
        if len(pos) != len(names) - 1:
            self.err(f"{coq}: {len(pos)} positional arguments for parameters {names[1:]}", node)
        if ss is not None and not haskw:
            self.err(f"{coq}: `**` passed to a method without a `**` parameter", node)
        parts = []
        for n in [recv] + pos:
            t, _, mon = self.E(n, env)
            parts.append((t, mon))
        if ss is not None:
            t, _, mon = self.E(ss, env)
            st, smon = self.lift([(t, mon)], lambda a: (f"(py_starstar {a[0]} [{'; '.join(slit(n) for n in names)}])", True))
            parts.append((st, smon))
        elif haskw:
            parts.append(("(VDict [])", False))
        term, mon = self.lift(parts, lambda a: (f"({coq} {' '.join(a)})", True))
        return term, V, mon

    def call(self, node, env):
        f = node.func
        fn = ast.unparse(f)
        a = node.args
        if isinstance(f, ast.Name) and f.id in PRIMS:
            if f.id == "__nil__":
                return "(VList [])", V, False
            if f.id == "__setattr__":
                self.ctx.attrs_used.add(a[1].value)
                vt, _, vmon = self.E(a[2], env)
                ot, _, omon = self.E(a[0], env)
                # Python evaluates the right-hand side first, then the target object
                term, mon = self.lift([(vt, vmon), (ot, omon)], lambda x: (f"(py_setattr {x[1]} {slit(a[1].value)} {x[0]})", True))
                return term, V, mon
            if f.id == "__delattr__":
                ot, _, omon = self.E(a[0], env)
                term, mon = self.lift([(ot, omon)], lambda x: (f"(py_delattr {x[0]} {slit(a[1].value)})", True))
                return term, V, mon
            if f.id == "__append__":
                return self.nary("py_append", a, env)
            if f.id == "__fst__":
                t, _, mon = self.E(a[0], env)
                term, mon = self.lift([(t, mon)], lambda x: (f"(fst {x[0]})", False))
                return term, V, mon
            if f.id == "__snd__":
                t, _, mon = self.E(a[0], env)
                term, mon = self.lift([(t, mon)], lambda x: (f"(snd {x[0]})", False))
                return term, V, mon
            if f.id == "__ret__":
                parts = []
                for n in a:
                    t, _, mon = self.E(n, env)
                    parts.append((t, mon))
                term, mon = self.lift(parts, lambda x: (f"({x[0]}, {x[1]})", False))
                return term, V, mon
            if f.id == "__unpack__":
                t, _, mon = self.E(a[0], env)
                term, mon = self.lift([(t, mon)], lambda x: (f"(py_unpack {x[0]} {a[1].value}%nat)", True))
                return term, V, mon
            if f.id == "__callm__":
                owner, meth, has_ss = a[0].value, a[1].value, a[2].value
                coq = self.ctx.need(owner, meth)
                names, kw = self.ctx.signature(owner, meth)
                rest = a[4:]
                pos, ss = (rest[:-1], rest[-1]) if has_ss else (rest, None)
                return self.mcall_term(coq, a[3], pos, ss, names, kw is not None, env, node)
            if f.id == "__calldyn__":
                meth, has_ss = a[0].value, a[1].value
                coq, npos, haskw = self.ctx.need_dyn(meth)
                rest = a[3:]
                pos, ss = (rest[:-1], rest[-1]) if has_ss else (rest, None)
                if len(pos) != npos or (ss is not None and not haskw):
                    self.err(f"{meth}: arguments do not fit the method's parameters", node)
                nodes = [a[2]] + pos + ([ss] if ss is not None else [])
                t, _, mon = self.nary(coq, nodes, env)
                if ss is None and haskw:
                    self.err(f"{meth}: call without `**` of a method with a `**` parameter not accepted here", node)
                return t, V, mon
        if node.keywords and not (fn.endswith(".reshape") or fn == "np.array"):
            self.err("keyword arguments not accepted in " + fn, node)
        if any(isinstance(x, ast.Starred) for x in a):
            self.err("starred argument not accepted", node)
        if fn == "len" and len(a) == 1:
            return self.un("py_len", a[0], env)
        if isinstance(f, ast.Name) and f.id in CLASSES:
            coq, npos, haskw = self.ctx.need_new(f.id)
            if len(a) != npos:
                self.err(f"{f.id}(..): wrong number of arguments", node)
            nodes = list(a)
            if haskw:
                self.err(f"{f.id}(..): constructor with a `**` parameter not accepted in an expression", node)
            return self.nary(coq, nodes, env)
        if isinstance(f, ast.Attribute):
            if f.attr == ORACLE:
                if not (isinstance(f.value, ast.Name) and f.value.id == "self" and len(a) == 2
                        and self.cls == "ParticleObjectLoader"):
                    self.err(f"{ORACLE}: expected self.{ORACLE}(<events>, <filters>) inside ParticleObjectLoader", node)
                return self.nary("py_apply_filters flt", a, env)
            if f.attr == "keys" and not a:
                return self.un("py_keys", f.value, env)
            if f.attr == "get" and len(a) == 2:
                return self.nary("py_dict_get", [f.value] + list(a), env)
            if f.attr == "reshape":
                inner = f.value
                ok = ([ast.unparse(x) for x in a] == ["-1", "2"] and not node.keywords
                      and isinstance(inner, ast.Call) and ast.unparse(inner.func) == "np.array" and len(inner.args) == 1
                      and [k.arg + "=" + ast.unparse(k.value) for k in inner.keywords if k.arg] == ["dtype=int"]
                      and len(inner.keywords) == 1)
                if not ok:
                    self.err("expected np.array(<list>, dtype=int).reshape(-1, 2)", node)
                return self.un("py_array_int_m1_2", inner.args[0], env)
        self.err("call not accepted: " + ast.unparse(node)[:70], node)

    def C(self, node, env):
        if isinstance(node, ast.Call):
            fn = ast.unparse(node.func)
            if fn == "isinstance" and len(node.args) == 2 and not node.keywords:
                ty = ast.unparse(node.args[1])
                if ty not in ISINSTANCE:
                    self.err("isinstance against this type not accepted: " + ty, node)
                t, _, mon = self.E(node.args[0], env)
                return self.lift([(t, mon)], lambda a: (f"(py_isinstance {a[0]} {ISINSTANCE[ty]})", False))
            if fn == "all" and len(node.args) == 1 and not node.keywords and isinstance(node.args[0], ast.GeneratorExp):
                ge = node.args[0]
                if len(ge.generators) != 1 or ge.generators[0].ifs or ge.generators[0].is_async:
                    self.err("all(..) accepted only over one `for` without `if`", node)
                g = ge.generators[0]
                items, imon, elty = self.iter_of(g.iter, env)
                binder, env2 = self.bind_target(g.target, elty, env)
                cond = self.C(ge.elt, env2)
                return self.lift([(items, imon)], lambda a: (f"(forallM (fun {binder} => {self.m(cond)}) {a[0]})", True))
            self.err("condition not accepted: " + ast.unparse(node)[:70], node)
        if isinstance(node, (ast.BoolOp, ast.Compare)) or (isinstance(node, ast.UnaryOp) and isinstance(node.op, ast.Not)):
            return pyfrag.Translator.C(self, node, env)
        self.err("condition not accepted (truth value of an object): " + ast.unparse(node)[:70], node)

    def method(self, fdef, coqname):
        names, kw = self.ctx.signature(self.cls, fdef.name)
        params = names + ([kw] if kw else [])
        self.particles = {p.arg for p in fdef.args.args
                          if p.annotation is not None and ast.unparse(p.annotation).strip("'\"") == "Particle"}
        local = set(params)
        for n in ast.walk(fdef):
            if isinstance(n, ast.Name) and isinstance(n.ctx, (ast.Store, ast.Del)):
                local.add(n.id)
            if isinstance(n, (ast.Lambda, ast.FunctionDef, ast.ClassDef, ast.Global, ast.Nonlocal, ast.NamedExpr, ast.Yield,
                              ast.YieldFrom, ast.Await, ast.Try, ast.With, ast.While)) and n is not fdef:
                self.err(f"{type(n).__name__} not accepted", n)
        mapped = {}
        for n in local:
            c = cname(n)
            if c in RESERVED or c.startswith(("py_", "gen_", "tmpcall", "V", "T_")) or n.startswith("__"):
                self.err(f"local name {n} clashes with a name of the generated file", fdef)
            if c in mapped:
                self.err(f"local names {n} and {mapped[c]} coincide after renaming", fdef)
            mapped[c] = n
        for n in self.particles:
            if n in {x.id for x in ast.walk(fdef) if isinstance(x, ast.Name) and isinstance(x.ctx, (ast.Store, ast.Del))}:
                self.err(f"particle parameter {n} is reassigned", fdef)
        self.fname, self.ret = fdef.name, V
        body = D(self.ctx, self.cls).block([Nil().visit(s) for s in strip_doc(fdef.body)])
        env = {n: Var(cname(n), V) for n in params}

        def kend(e):
            if e["self"].opt:
                self.err("self may be unbound", fdef)
            return f"Ok ({e['self'].name}, VNone)"
        term = self.S(body, env, kend, {"self"})
        ps = " ".join(f"({cname(n)} : val)" for n in params)
        return f"Definition {coqname} {ps} : result (val * val) :=\n  {term}.\n"


PRELUDE = """From Coq Require Import List ZArith Bool String.
From SX Require Import Lib.Py Model.PObjRt.
Import ListNotations.
Local Open Scope Z_scope.

Section GenPObj.
Variable P : Type.
Local Notation val := (pv P).
(* self.__apply_kwargs_filters(<list of events>, <filters value>) *)
Variable flt : list (list P) -> val -> result (list (list P)).
(* <Particle object>.<attribute> *)
Variable pattr : P -> string -> result val.

"""


def generate():
    ctx = Ctx()
    for cls, meth in ROOTS:
        if meth not in ctx.meths[cls]:
            raise TranslateError(f"{cls}.{meth} not found", None, ctx.path[cls])
        ctx.need(cls, meth)
    ctx.need_new("ParticleObjectLoader")
    # ParticleObjectStorer(evs, **kwargs)
    names, kw = ctx.signature("ParticleObjectStorer", "__init__")
    if len(names) != 2 or kw is None:
        raise TranslateError("ParticleObjectStorer.__init__: expected (self, <list>, **kwargs)", None, ctx.path["ParticleObjectStorer"])
    init = ctx.need("ParticleObjectStorer", "__init__")
    ctx.out.append("(* ParticleObjectStorer(<list>, **kwargs): __init__ on an object without attributes *)\n"
                   f"Definition gen_new_ParticleObjectStorer ({cname(names[1])} {cname(kw)} : val) : result val :=\n"
                   f"  p <- {init} (VObj {slit('ParticleObjectStorer')} []) {cname(names[1])} {cname(kw)} ;; Ok (fst p).\n\n")
    # no data attribute may be a method / property of the classes
    clash = ctx.attrs_used & ctx.method_names
    if clash:
        raise TranslateError(f"data attributes that are also methods: {sorted(clash)}")
    return HEADER + PRELUDE + "".join(ctx.out) + "End GenPObj.\n"


def main(outdir):
    return write_if_changed(outdir + "/GenPObj.v", generate())

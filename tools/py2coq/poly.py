"""`poly` extractor: arithmetic assignments over subscripted names inside
`if order == k` / `elif` chains  ->  ring expressions over an abstract carrier K.

Accepted expression grammar (everything else aborts, fail-closed):
  e ::= e + e | e - e | e * e | -e | e ** c      (c an integral literal >= 0)
      | NAME[c]                                   (c an integer literal)
      | c                                         (integral int/float literal)
"""
import ast
from .core import TranslateError, int_const


def expr(node, arrays, path, env=None):
    """arrays: dict python-name -> coq function name (nat -> K); env: names with a known integer value"""
    env = env or {}
    if isinstance(node, ast.BinOp):
        if isinstance(node.op, ast.Pow):
            n = int_const(node.right, path)
            if n < 0 or n > 64:
                raise TranslateError("exponent out of range", node, path)
            return f"(kpow k1 kmul {expr(node.left, arrays, path, env)} {n}%nat)"
        ops = {ast.Add: "kadd", ast.Sub: "ksub", ast.Mult: "kmul"}
        for t, name in ops.items():
            if isinstance(node.op, t):
                return f"({name} {expr(node.left, arrays, path, env)} {expr(node.right, arrays, path, env)})"
        raise TranslateError("operator not accepted: " + type(node.op).__name__, node, path)
    if isinstance(node, ast.UnaryOp) and isinstance(node.op, ast.USub):
        return f"(kopp {expr(node.operand, arrays, path, env)})"
    if isinstance(node, ast.UnaryOp) and isinstance(node.op, ast.UAdd):
        return expr(node.operand, arrays, path, env)
    if isinstance(node, ast.Subscript) and isinstance(node.value, ast.Name):
        if node.value.id not in arrays:
            raise TranslateError(f"unknown array {node.value.id}", node, path)
        if isinstance(node.slice, ast.Name) and node.slice.id in env:
            i = env[node.slice.id]
        else:
            i = int_const(node.slice, path)
        if i < 0:
            raise TranslateError("negative index", node, path)
        return f"({arrays[node.value.id]} {i}%nat)"
    if isinstance(node, ast.Constant):
        c = int_const(node, path)
        if c < 0:
            return f"(kopp (kz k0 k1 kadd kmul kopp {-c}%Z))"
        return f"(kz k0 k1 kadd kmul kopp {c}%Z)"
    raise TranslateError("expression not accepted: " + ast.dump(node)[:80], node, path)


def if_chain(node, var, path):
    """`if var == c0: B0 elif var == c1: B1 ... [else: Belse]` -> ([(c, body)], else_body)"""
    out = []
    cur = node
    while True:
        if not isinstance(cur, ast.If):
            raise TranslateError("expected if-chain", cur, path)
        t = cur.test
        if not (isinstance(t, ast.Compare) and len(t.ops) == 1 and isinstance(t.ops[0], ast.Eq)
                and isinstance(t.left, ast.Name) and t.left.id == var):
            raise TranslateError(f"expected `{var} == <const>`", cur, path)
        c = int_const(t.comparators[0], path)
        out.append((c, cur.body))
        if len(cur.orelse) == 1 and isinstance(cur.orelse[0], ast.If):
            cur = cur.orelse[0]
            continue
        return out, cur.orelse

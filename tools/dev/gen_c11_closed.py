#!/usr/bin/env python3
"""Development-time generator of coq/Proofs/C11_Closed.v (NOT run by ./check; its output is a static,
committed Coq file whose every lemma is checked by coqc).

For every (a,b) <= (3,3) it derives, by inclusion-exclusion over the set partitions of the a+b tuple
positions (Moebius function of the partition lattice: a block B contributes the power sum of net harmonic
e(B) = #plain - #conjugated, i.e. Q_e, conj Q_-e or the multiplicity M when balanced, with the factor
(-1)^(|B|-1) (|B|-1)!), the closed form CF_a_b of the distinct-tuple sum dsum2 a b of unit-modulus numbers
in terms of Q_n, Q_2n, Q_3n, their conjugates and M, and the cofactor by which the cons-step identity is a
multiple of z*w - 1.  Same for the sums pdsum2 a b, (a,b) <= (1,2), whose leading position is restricted to
flagged elements.  Coq proves each closed form by induction on the list with [ring].

Pure Python (no sympy needed): polynomials are dicts  exponent-tuple -> int.
usage: gen_c11_closed.py > /verif/coq/Proofs/C11_Closed.v
"""
import sys, math, itertools

# ----------------------------------------------------------------------------- polynomials
class Ring:
    def __init__(self, names):
        self.names = list(names)
        self.n = len(names)
        self.idx = {v: i for i, v in enumerate(names)}

    def const(self, c):
        return {(0,) * self.n: c} if c else {}

    def var(self, v):
        e = [0] * self.n
        e[self.idx[v]] = 1
        return {tuple(e): 1}

    @staticmethod
    def add(p, q, s=1):
        r = dict(p)
        for m, c in q.items():
            v = r.get(m, 0) + s * c
            if v:
                r[m] = v
            else:
                r.pop(m, None)
        return r

    def mul(self, p, q):
        r = {}
        for m1, c1 in p.items():
            for m2, c2 in q.items():
                m = tuple(a + b for a, b in zip(m1, m2))
                v = r.get(m, 0) + c1 * c2
                if v:
                    r[m] = v
                else:
                    r.pop(m, None)
        return r

    def scale(self, p, c):
        return {m: c * v for m, v in p.items()} if c else {}

    def pw(self, p, n):
        r = self.const(1)
        for _ in range(n):
            r = self.mul(r, p)
        return r

    def subst(self, p, env):
        """simultaneous substitution var -> polynomial (missing vars stay)"""
        r = {}
        cache = {}
        for m, c in p.items():
            t = self.const(c)
            for i, e in enumerate(m):
                if e:
                    key = (i, e)
                    if key not in cache:
                        base = env.get(self.names[i], self.var(self.names[i]))
                        cache[key] = self.pw(base, e)
                    t = self.mul(t, cache[key])
            r = self.add(r, t)
        return r

    def coq(self, p):
        if not p:
            return "0"
        terms = []
        for m in sorted(p, reverse=True):
            c = p[m]
            fs = []
            for i, e in enumerate(m):
                fs += [self.names[i]] * e
            mono = " * ".join(fs)
            a = abs(c)
            if mono:
                t = mono if a == 1 else f"N {a} * {mono}"
            else:
                t = f"N {a}"
            terms.append(("-" if c < 0 else "+", t))
        s = ""
        for k, (sg, t) in enumerate(terms):
            if k == 0:
                s = t if sg == "+" else f"0 - {t}"
            else:
                s += f" {sg} {t}"
        return s


def set_partitions(xs):
    xs = list(xs)
    if not xs:
        yield []
        return
    first, rest = xs[0], xs[1:]
    for part in set_partitions(rest):
        yield [[first]] + part
        for i in range(len(part)):
            yield part[:i] + [[first] + part[i]] + part[i + 1:]


QV = ["q1", "q2", "q3", "r1", "r2", "r3", "m"]
PV = ["p1", "p2", "s1", "mp"]
R = Ring(PV + QV + ["z", "w"])


def X(e):
    if e == 0:
        return R.var("m")
    return R.var(("q" if e > 0 else "r") + str(abs(e)))


def Pv(e):
    if e == 0:
        return R.var("mp")
    if e > 0:
        return R.var("p" + str(e))
    if e == -1:
        return R.var("s1")
    raise ValueError(e)


def closed(a, b):
    signs = [1] * a + [-1] * b
    tot = {}
    for part in set_partitions(range(a + b)):
        t = R.const(1)
        for B in part:
            t = R.scale(R.mul(t, X(sum(signs[i] for i in B))), (-1) ** (len(B) - 1) * math.factorial(len(B) - 1))
        tot = R.add(tot, t)
    return tot


def pclosed(a, b):
    signs = [1] + [1] * a + [-1] * b          # position 0: the restricted, plain one
    tot = {}
    for part in set_partitions(range(a + b + 1)):
        t = R.const(1)
        for B in part:
            e = sum(signs[i] for i in B)
            v = Pv(e) if 0 in B else X(e)
            t = R.scale(R.mul(t, v), (-1) ** (len(B) - 1) * math.factorial(len(B) - 1))
        tot = R.add(tot, t)
    return tot


def shift_env(flag):
    z, w = R.var("z"), R.var("w")
    env = {}
    for h in (1, 2, 3):
        env[f"q{h}"] = R.add(R.pw(z, h), R.var(f"q{h}"))
        env[f"r{h}"] = R.add(R.pw(w, h), R.var(f"r{h}"))
    env["m"] = R.add(R.const(1), R.var("m"))
    if flag:
        env["p1"] = R.add(z, R.var("p1"))
        env["p2"] = R.add(R.pw(z, 2), R.var("p2"))
        env["s1"] = R.add(w, R.var("s1"))
        env["mp"] = R.add(R.const(1), R.var("mp"))
    return env


def divide_zw(p):
    """p = (z*w - 1) * cof  (p must lie in the ideal); returns cof"""
    iz, iw = R.idx["z"], R.idx["w"]
    cof = {}
    p = dict(p)
    while True:
        hit = [m for m in p if m[iz] and m[iw]]
        if not hit:
            break
        for m in hit:
            c = p.pop(m)
            low = list(m)
            low[iz] -= 1
            low[iw] -= 1
            low = tuple(low)
            cof[low] = cof.get(low, 0) + c
            if not cof[low]:
                del cof[low]
            v = p.get(low, 0) + c
            if v:
                p[low] = v
            else:
                p.pop(low, None)
    if p:
        raise SystemExit("step identity is not a multiple of z*w-1: remainder " + R.coq(p))
    return cof


def main():
    KMAX = 3
    CF = {(a, b): closed(a, b) for a in range(KMAX + 1) for b in range(KMAX + 1)}
    PF = {(a, b): pclosed(a, b) for a in range(2) for b in range(3)}
    out = []
    w = out.append
    w("(* GENERATED at development time by tools/dev/gen_c11_closed.py - static file, every lemma checked by coqc.\n"
      "   Closed forms (inclusion-exclusion over set partitions) of the distinct-tuple sums of Lib/Distinct.v for\n"
      "   unit-modulus elements, in terms of the power sums Q_h = sum z^h, their conjugates and the length M. *)\n"
      "From Coq Require Import List ZArith Ring Ring_theory Arith Lia Bool.\n"
      "From SX Require Import Lib.KRing Lib.Distinct.\nImport ListNotations.\n\n")
    w("Section Forms.\n  Variable C : Type.\n  Variables (c0 c1 : C) (cadd cmul csub : C -> C -> C) (copp : C -> C).\n"
      "  Notation \"0\" := c0. Notation \"1\" := c1.\n  Infix \"+\" := cadd. Infix \"*\" := cmul. Infix \"-\" := csub.\n"
      "  Notation N n := (kz c0 c1 cadd cmul copp n%Z).\n"
      "  (* every form takes all ring operations as arguments, used or not *)\n"
      "  Notation USE := (c0, c1, cadd, cmul, csub, copp).\n\n")
    qargs = " ".join(QV)
    pargs = " ".join(PV)
    for (a, b), p in sorted(CF.items()):
        w(f"  Definition CF_{a}_{b} ({qargs} : C) : C :=\n    let _ := USE in {R.coq(p)}.\n")
    for (a, b), p in sorted(PF.items()):
        w(f"  Definition PF_{a}_{b} ({pargs} {qargs} : C) : C :=\n    let _ := USE in {R.coq(p)}.\n")
    w("End Forms.\n\n")

    w("Section Closed.\n  Variable C : Type.\n  Variables (c0 c1 : C) (cadd cmul csub : C -> C -> C) (copp : C -> C) (cj : C -> C).\n"
      "  Hypothesis Cth : ring_theory c0 c1 cadd cmul csub copp (@eq C).\n  Add Ring CringF : Cth.\n"
      "  Notation \"0\" := c0. Notation \"1\" := c1.\n  Infix \"+\" := cadd. Infix \"*\" := cmul. Infix \"-\" := csub.\n"
      "  Notation N n := (kz c0 c1 cadd cmul copp n%Z).\n"
      "  Notation DS := (dsum2 c0 c1 cadd cmul cj).\n  Notation PD := (pdsum2 c0 c1 cadd cmul cj).\n"
      "  Notation KN := (knat c0 c1 cadd).\n"
      "  Notation Q h l := (psum c0 c1 cadd cmul h l).\n"
      "  Notation Qb h l := (psum c0 c1 cadd cmul h (map cj l)).\n"
      "  Definition U (z : C) : Prop := z * cj z = 1.\n"
      "  (* the flagged sub-list *)\n"
      "  Definition fl (l : list (C * bool)) : list C := map fst (filter snd l).\n\n"
      "  Lemma fl_cons z f l : fl ((z, f) :: l) = if f then z :: fl l else fl l.\n"
      "  Proof. unfold fl; destruct f; reflexivity. Qed.\n\n")
    for (a, b) in sorted(CF):
        w(f"  Notation cf_{a}_{b} := (CF_{a}_{b} C c0 c1 cadd cmul csub copp).\n")
    for (a, b) in sorted(PF):
        w(f"  Notation pf_{a}_{b} := (PF_{a}_{b} C c0 c1 cadd cmul csub copp).\n")
    w("\n")
    unf = "cbn [kz kpos knat]"

    zs = {"q1": "z + q1", "q2": "z * z + q2", "q3": "z * z * z + q3", "r1": "w + r1", "r2": "w * w + r2",
          "r3": "w * w * w + r3", "m": "1 + m"}
    zsp = {"p1": "z + p1", "p2": "z * z + p2", "s1": "w + s1", "mp": "1 + mp"}
    shifted_q = " ".join(f"({zs[v]})" for v in QV)

    # ---- step lemmas for CF
    for (a, b) in sorted(CF, key=lambda t: (t[0] + t[1], t)):
        if (a, b) == (0, 0):
            continue
        pa, pb = max(a - 1, 0), max(b - 1, 0)
        lhs = R.subst(CF[(a, b)], shift_env(False))
        rhs = CF[(a, b)]
        if a:
            rhs = R.add(rhs, R.scale(R.mul(R.var("z"), CF[(pa, b)]), a))
        if b:
            rhs = R.add(rhs, R.scale(R.mul(R.var("w"), CF[(a, pb)]), b))
        cof = divide_zw(R.add(lhs, rhs, -1))
        L = f"cf_{a}_{b} {shifted_q}"
        Rr = f"cf_{a}_{b} {qargs} + KN {a} * z * cf_{pa}_{b} {qargs} + KN {b} * w * cf_{a}_{pb} {qargs}"
        w(f"  Lemma step_{a}_{b} {qargs} z w : z * w = 1 ->\n    {L}\n    = {Rr}.\n  Proof.\n    intros H. apply (csub_eq0 C c0 c1 cadd cmul csub copp Cth).\n"
          f"    assert (E : ({L}) - ({Rr})\n               = (z * w - 1) * ({R.coq(cof)})).\n"
          f"    {{ unfold CF_{a}_{b}, CF_{pa}_{b}, CF_{a}_{pb}; {unf}; ring. }}\n"
          f"    rewrite E, H. ring.\n  Qed.\n\n")

    # ---- closed forms of dsum2
    w("  Definition QS (l : list C) (f : C -> C -> C -> C -> C -> C -> C -> C) : C :=\n"
      "    f (Q 1%nat l) (Q 2%nat l) (Q 3%nat l) (Qb 1%nat l) (Qb 2%nat l) (Qb 3%nat l) (KN (length l)).\n\n")
    w("  Lemma closed_0_0 : forall l, Forall U l -> DS 0 0 l = QS l cf_0_0.\n  Proof. intros l _. unfold QS, CF_0_0. cbn [kz kpos]. reflexivity. Qed.\n\n")
    for (a, b) in sorted(CF, key=lambda t: (t[0] + t[1], t)):
        if (a, b) == (0, 0):
            continue
        pa, pb = max(a - 1, 0), max(b - 1, 0)
        rw = []
        if a and (pa, b) != (a, b):
            rw.append(f"(closed_{pa}_{b} l Hl)")
        if b and (a, pb) != (a, b):
            rw.append(f"(closed_{a}_{pb} l Hl)")
        rws = (", " + ", ".join(rw)) if rw else ""
        w(f"  Lemma closed_{a}_{b} : forall l, Forall U l -> DS {a} {b} l = QS l cf_{a}_{b}.\n  Proof.\n"
          f"    induction l as [|z l IH]; intros H.\n"
          f"    - rewrite (dsum2_nil C c0 c1 cadd cmul cj). unfold QS, CF_{a}_{b}. cbn [psum map ksum length kz kpos knat]. ring.\n"
          f"    - inversion H as [|? ? Hz Hl]; subst. specialize (IH Hl).\n"
          f"      rewrite (dsum2_cons C c0 c1 cadd cmul csub copp cj Cth). cbn [pred]. rewrite !IH{rws}.\n"
          f"      unfold QS. cbn [map length]. rewrite !(psum_cons C c0 c1 cadd cmul).\n"
          f"      symmetry. etransitivity; [| apply (step_{a}_{b} _ _ _ _ _ _ _ z (cj z) Hz)].\n"
          f"      f_equal; cbn [kpow knat]; ring.\n  Qed.\n\n")

    # ---- restricted sums
    shifted = {True: " ".join(f"({zsp[v]})" for v in PV) + " " + shifted_q,
               False: pargs + " " + shifted_q}
    for (a, b) in sorted(PF, key=lambda t: (t[0] + t[1], t)):
        pa, pb = max(a - 1, 0), max(b - 1, 0)
        for flag in (True, False):
            lhs = R.subst(PF[(a, b)], shift_env(flag))
            rhs = PF[(a, b)]
            if flag:
                rhs = R.add(rhs, R.mul(R.var("z"), CF[(a, b)]))
            if a:
                rhs = R.add(rhs, R.scale(R.mul(R.var("z"), PF[(pa, b)]), a))
            if b:
                rhs = R.add(rhs, R.scale(R.mul(R.var("w"), PF[(a, pb)]), b))
            cof = divide_zw(R.add(lhs, rhs, -1))
            nm = f"pstep_{a}_{b}_{'t' if flag else 'f'}"
            L = f"pf_{a}_{b} {shifted[flag]}"
            first = f"z * cf_{a}_{b} {qargs}" if flag else "0"
            Rr = (f"{first} + pf_{a}_{b} {pargs} {qargs} + KN {a} * z * pf_{pa}_{b} {pargs} {qargs}"
                  f" + KN {b} * w * pf_{a}_{pb} {pargs} {qargs}")
            w(f"  Lemma {nm} {pargs} {qargs} z w : z * w = 1 ->\n    {L}\n    = {Rr}.\n  Proof.\n"
              f"    intros H. apply (csub_eq0 C c0 c1 cadd cmul csub copp Cth).\n"
              f"    assert (E : ({L}) - ({Rr})\n               = (z * w - 1) * ({R.coq(cof)})).\n"
              f"    {{ unfold PF_{a}_{b}, PF_{pa}_{b}, PF_{a}_{pb}, CF_{a}_{b}; {unf}; ring. }}\n"
              f"    rewrite E, H. ring.\n  Qed.\n\n")
    w("  Definition PS (l : list (C * bool)) (f : C -> C -> C -> C -> C -> C -> C -> C -> C -> C -> C -> C) : C :=\n"
      "    f (Q 1%nat (fl l)) (Q 2%nat (fl l)) (Qb 1%nat (fl l)) (KN (length (fl l)))\n"
      "      (Q 1%nat (map fst l)) (Q 2%nat (map fst l)) (Q 3%nat (map fst l))\n"
      "      (Qb 1%nat (map fst l)) (Qb 2%nat (map fst l)) (Qb 3%nat (map fst l)) (KN (length (map fst l))).\n\n")
    for (a, b) in sorted(PF, key=lambda t: (t[0] + t[1], t)):
        pa, pb = max(a - 1, 0), max(b - 1, 0)
        rw = []
        if a and (pa, b) != (a, b):
            rw.append(f"(pclosed_{pa}_{b} l Hl)")
        if b and (a, pb) != (a, b):
            rw.append(f"(pclosed_{a}_{pb} l Hl)")
        rws = (", " + ", ".join(rw)) if rw else ""
        w(f"  Lemma pclosed_{a}_{b} : forall l, Forall U (map fst l) -> PD {a} {b} l = PS l pf_{a}_{b}.\n  Proof.\n"
          f"    induction l as [|[z f] l IH]; intros H.\n"
          f"    - rewrite (pdsum2_nil C c0 c1 cadd cmul cj). unfold PS, PF_{a}_{b}, fl. cbn [psum map filter ksum length kz kpos knat]. ring.\n"
          f"    - cbn [map fst] in H. inversion H as [|? ? Hz Hl]; subst. specialize (IH Hl).\n"
          f"      rewrite (pdsum2_cons C c0 c1 cadd cmul csub copp cj Cth). cbn [pred]. rewrite !IH{rws}.\n"
          f"      rewrite (closed_{a}_{b} (map fst l) Hl).\n"
          f"      unfold PS, QS. rewrite fl_cons. destruct f; cbn [map fst length]; rewrite !(psum_cons C c0 c1 cadd cmul); symmetry.\n"
          f"      + etransitivity; [| apply (pstep_{a}_{b}_t _ _ _ _ _ _ _ _ _ _ _ z (cj z) Hz)].\n"
          f"        f_equal; cbn [kpow knat]; ring.\n"
          f"      + etransitivity; [| apply (pstep_{a}_{b}_f _ _ _ _ _ _ _ _ _ _ _ z (cj z) Hz)].\n"
          f"        f_equal; cbn [kpow knat]; ring.\n  Qed.\n\n")
    w("End Closed.\n")
    sys.stdout.write("".join(out))


if __name__ == "__main__":
    main()

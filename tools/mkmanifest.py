#!/usr/bin/env python3
"""writes /verif/MANIFEST.json from harness/props/*.py metadata (ID, LEVEL_TEXT, LEVEL_NOTE, TECHNIQUE, DESIGN_REF)"""
import ast, glob, json, os
V = os.path.dirname(os.path.dirname(os.path.abspath(__file__)))
ALL = [f"C{i:02d}" for i in range(1, 21)]


def meta(path):
    tree = ast.parse(open(path).read())
    out = {}
    for n in tree.body:
        if isinstance(n, ast.Assign) and isinstance(n.targets[0], ast.Name):
            try:
                out[n.targets[0].id] = ast.literal_eval(n.value)
            except Exception:
                pass
    return out


CLAIM = set(open(os.path.join(V, "claimed.txt")).read().split())
checks, claimed = [], set()
for p in sorted(glob.glob(os.path.join(V, "harness", "props", "c*.py"))):
    m = meta(p)
    if "ID" not in m or m.get("DISABLED") or m["ID"] not in CLAIM:
        continue
    pid = m["ID"]
    claimed.add(pid)
    checks.append({
        "property_id": pid,
        "quick_cmd": f"./check {pid} --tier quick",
        "thorough_cmd": f"./check {pid} --tier thorough",
        "evidence_file": f"/verif/evidence/{pid}.json",
        "replay_cmd_template": f"./check {pid} --replay {{path}}",
        "engine": "coq-proof+correspondence",
        "level_claimed": {"category": "proof", "text": m.get("LEVEL_TEXT", ""), "design_ref": m.get("DESIGN_REF", "DESIGN.md section 6 " + pid)},
        "level_note": m.get("LEVEL_NOTE", "") + ((" SOURCE TIES (hand model proved equal to method bodies regenerated from /repo on every run; "
                                                   "theorem files " + ", ".join("Properties/%s.v" % f for f in m.get("EXTRA_PROPERTY_FILES", [])) + "): "
                                                   + m["SOURCE_TIE_NOTE"]) if m.get("SOURCE_TIE_NOTE") else ""),
        "technique": m.get("TECHNIQUE", "machine-checked proof in Coq 8.16 about a model tied to the source"),
    })
na_path = os.path.join(V, "not_applicable.json")
na = json.load(open(na_path)) if os.path.exists(na_path) else {}
manifest = {
    "version": 1,
    "setup_cmd": "./setup.sh",
    "hooks": {"guard": "SPARKX_VERIF", "enable": "no source hooks: checks import /repo/src directly (PYTHONPATH=/repo/src)",
              "baseline_off_cmd": "cd /repo && /venv/bin/python -m pytest -ra -q -p no:cacheprovider --timeout=900 --continue-on-collection-errors",
              "source_commits": [], "add_only": True},
    "engines": [{"name": "coq-proof+correspondence", "path": "/verif/check",
                 "serves_properties": sorted(claimed),
                 "kind_free_text": "Coq 8.16.1 theorems about a model that is regenerated from /repo (tools/py2coq) or hand-written and run side by side with the implementation (Eval vm_compute in generated cases files)"}],
    "checks": checks,
    "not_applicable": [{"property_id": p, "reason": na.get(p, "not yet covered by the Coq development in this round (no check is claimed)")}
                       for p in ALL if p not in claimed],
    "notes": "see DESIGN.md; known_findings.json lists repaired (fixed:) and open findings",
}
json.dump(manifest, open(os.path.join(V, "MANIFEST.json"), "w"), indent=1)
print("claimed:", sorted(claimed))

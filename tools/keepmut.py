#!/usr/bin/env python3
"""tools/keepmut.py <mutdir> <id> <caught_by> [round]  - store a confirmed seeded change under /verif/seeded/<id>/"""
import json, os, shutil, sys
src, mid, caught = sys.argv[1], sys.argv[2], sys.argv[3]
dst = f"/verif/seeded/{mid}"
os.makedirs(dst, exist_ok=True)
for f in ("patch.diff", "demo.py"):
    shutil.copy(os.path.join(src, f), dst)
meta = json.load(open(os.path.join(src, "meta.json")))
meta["confirmed_by_me"] = ("applied with git apply (to /repo, or to a scratch worktree the check is pointed at with SPARKX_REPO); demo.py exits 0 on the unchanged tree and 1 with the change; "
                           "then ./check <prop> run against the changed tree and the change reverted (tools/trymut.sh / tools/trymut_wt.sh)")
meta["check_result"] = caught
if len(sys.argv) > 4:
    meta["round"] = int(sys.argv[4])
json.dump(meta, open(os.path.join(dst, "meta.json"), "w"), indent=1)
print("kept", dst)

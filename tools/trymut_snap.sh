#!/bin/sh
# usage: /tmp/r3/try.sh <dir with patch.diff demo.py> <prop> [tier] [verifroot]
d=$1; p=$2; tier=${3:-quick}; V=${4:-/tmp/vsnap}
wt=/tmp/mutwt_$$
git -C /repo worktree add --detach $wt HEAD -q || exit 1
trap 'git -C /repo worktree remove --force '$wt' 2>/dev/null' EXIT
PYTHONPATH=$wt/src /venv/bin/python $d/demo.py >$d/demo_clean.out 2>&1; c=$?
git -C $wt apply --check $d/patch.diff || { echo "PATCH DOES NOT APPLY"; exit 1; }
git -C $wt apply $d/patch.diff
PYTHONPATH=$wt/src /venv/bin/python $d/demo.py >$d/demo_mut.out 2>&1; m=$?
echo "demo: clean exit=$c mutated exit=$m"
cd $V && VERIF_EVIDENCE_DIR=$d/evidence SPARKX_REPO=$wt ./check $p --tier $tier > $d/check_mut.out 2>&1; r=$?
echo "check $p exit=$r"; grep -A2 "VIOLATION" $d/check_mut.out | cut -c1-500 | head -8; tail -1 $d/check_mut.out | cut -c1-300
